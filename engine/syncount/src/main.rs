// Independent cross-check of the fact extractor (thorough tier): counts method-call and
// path-call expressions by name in the production part of each source file, from the
// syntax tree alone (syn), skipping every item under #[cfg(test)].  Output: JSON
// {"file": {"name": count}}.
use std::collections::BTreeMap;
use syn::visit::{self, Visit};

struct V {
    counts: BTreeMap<String, usize>,
}

fn is_cfg_test(attrs: &[syn::Attribute]) -> bool {
    attrs.iter().any(|a| {
        a.path().is_ident("cfg") && {
            let s = a.meta.require_list().map(|l| l.tokens.to_string()).unwrap_or_default();
            s.replace(' ', "") == "test"
        }
    })
}

impl<'ast> Visit<'ast> for V {
    fn visit_item(&mut self, i: &'ast syn::Item) {
        let attrs: &[syn::Attribute] = match i {
            syn::Item::Mod(m) => &m.attrs,
            syn::Item::Fn(f) => &f.attrs,
            syn::Item::Impl(m) => &m.attrs,
            syn::Item::Use(u) => &u.attrs,
            syn::Item::Struct(s) => &s.attrs,
            syn::Item::Enum(s) => &s.attrs,
            syn::Item::Const(s) => &s.attrs,
            _ => &[],
        };
        if is_cfg_test(attrs) {
            return;
        }
        visit::visit_item(self, i);
    }
    fn visit_impl_item_fn(&mut self, f: &'ast syn::ImplItemFn) {
        if is_cfg_test(&f.attrs) {
            return;
        }
        visit::visit_impl_item_fn(self, f);
    }
    fn visit_trait_item_fn(&mut self, f: &'ast syn::TraitItemFn) {
        if is_cfg_test(&f.attrs) {
            return;
        }
        visit::visit_trait_item_fn(self, f);
    }
    fn visit_expr_method_call(&mut self, e: &'ast syn::ExprMethodCall) {
        *self.counts.entry(format!(".{}", e.method)).or_insert(0) += 1;
        visit::visit_expr_method_call(self, e);
    }
    fn visit_expr_call(&mut self, e: &'ast syn::ExprCall) {
        if let syn::Expr::Path(p) = &*e.func {
            let name: Vec<String> = p.path.segments.iter().map(|s| s.ident.to_string()).collect();
            *self.counts.entry(name.join("::")).or_insert(0) += 1;
        }
        visit::visit_expr_call(self, e);
    }
    fn visit_macro(&mut self, m: &'ast syn::Macro) {
        let name: Vec<String> = m.path.segments.iter().map(|s| s.ident.to_string()).collect();
        *self.counts.entry(format!("{}!", name.join("::"))).or_insert(0) += 1;
        // look inside the macro arguments for expressions (format!/println!/vec!/write!/panic!)
        if let Ok(args) = m.parse_body_with(syn::punctuated::Punctuated::<syn::Expr, syn::Token![,]>::parse_terminated) {
            for a in args.iter() {
                self.visit_expr(a);
            }
        }
    }
}

fn main() {
    let mut out = String::from("{");
    let mut first = true;
    for path in std::env::args().skip(1) {
        let src = std::fs::read_to_string(&path).expect("read");
        let file = syn::parse_file(&src).expect("parse");
        let mut v = V { counts: BTreeMap::new() };
        v.visit_file(&file);
        if !first {
            out.push(',');
        }
        first = false;
        out.push_str(&format!("{:?}:{{", path));
        let mut f2 = true;
        for (k, n) in v.counts.iter() {
            if !f2 {
                out.push(',');
            }
            f2 = false;
            out.push_str(&format!("{:?}:{}", k, n));
        }
        out.push('}');
    }
    out.push('}');
    println!("{}", out);
}
