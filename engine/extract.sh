#!/bin/bash
# usage: extract.sh <manifest-dir> <out-prefix> [--tests]
# Runs the fact extractor over the crate at <manifest-dir> (read in place), writes
# <out-prefix>.json (and <out-prefix>.test.json with --tests).  Exit 2 on any failure.
set -u
HERE="$(cd "$(dirname "$0")" && pwd)"
VERIF="$(dirname "$HERE")"
SRC="$(cd "$1" && pwd)"; OUT="$2"; MODE="${3:-}"
case "$OUT" in /*) ;; *) OUT="$PWD/$OUT";; esac
CRATE="${RULER_FACTS_CRATE:-ruler}"
export CARGO_NET_OFFLINE=true
DRV="$VERIF/.cache/driver-target/release/ruler-facts"
if [ ! -x "$DRV" ] || [ "$HERE/driver/src/main.rs" -nt "$DRV" ]; then
  (cd "$HERE/driver" && CARGO_TARGET_DIR="$VERIF/.cache/driver-target" cargo build --release --offline >"$VERIF/.cache/driver-build.log" 2>&1) \
    || { echo "CHECK-ERROR driver build failed (see .cache/driver-build.log)"; exit 2; }
fi
SYSROOT="$(rustc +nightly --print sysroot)"
# one extraction at a time per target directory (concurrent runs in one directory would delete
# each other's fingerprints or be served from cargo's freshness cache without running the
# driver); a few directories ("slots") let independent trees be extracted side by side
TBASE="${RULER_FACTS_TARGET:-$VERIF/.cache/target-$CRATE}"
mkdir -p "$VERIF/.cache"
TDIR=""
for S in "" -s1 -s2 -s3; do
  exec 9>"$VERIF/.cache/extract$S.lock"
  if flock -n 9; then TDIR="$TBASE$S"; break; fi
done
if [ -z "$TDIR" ]; then
  exec 9>"$VERIF/.cache/extract.lock"
  flock 9
  TDIR="$TBASE"
fi
mkdir -p "$TDIR"
# cargo's freshness cache would skip the wrapper: forget the crate's fingerprints
rm -rf "$TDIR"/debug/.fingerprint/"$CRATE"-* 2>/dev/null
rm -f "$OUT.json" "$OUT.test.json"
EXTRA=""
[ "$MODE" = "--tests" ] && EXTRA="--tests --bins"
LD_LIBRARY_PATH="$SYSROOT/lib" \
RUSTFLAGS="-Zmir-opt-level=0 -Awarnings" \
RUSTC_WORKSPACE_WRAPPER="$DRV" \
RULER_FACTS_OUT="$OUT" RULER_FACTS_CRATE="$CRATE" \
CARGO_TARGET_DIR="$TDIR" \
cargo +nightly check --offline --quiet --manifest-path "$SRC/Cargo.toml" $EXTRA >"$OUT.log" 2>&1
RC=$?
if [ $RC -ne 0 ] || [ ! -s "$OUT.json" ]; then
  echo "CHECK-ERROR extraction failed rc=$RC (see $OUT.log)"; tail -5 "$OUT.log"; exit 2
fi
exit 0
