// Fact extractor for the static checks in /verif.
//
// A rustc driver (rustc_private) that is injected with RUSTC_WORKSPACE_WRAPPER under
// `cargo +nightly check`.  For the crate named by RULER_FACTS_CRATE (default "ruler") it
// serialises type facts and the MIR of every body to the JSON file RULER_FACTS_OUT
// (suffixes ".test.json" when the unit is compiled with --test).  Every other crate is
// compiled untouched.  The extractor contains no property knowledge.
#![feature(rustc_private)]

extern crate rustc_abi;
extern crate rustc_driver;
extern crate rustc_hir;
extern crate rustc_interface;
extern crate rustc_middle;
extern crate rustc_span;

use rustc_driver::{Callbacks, Compilation};
use rustc_hir::def::DefKind;
use rustc_hir::def_id::{DefId, LocalDefId, LOCAL_CRATE};
use rustc_middle::mir::{
    self, AggregateKind, AssertKind, BasicBlock, Body, BorrowKind, ConstValue, Operand, Place,
    PlaceRef, ProjectionElem, Rvalue, StatementKind, TerminatorKind, UnwindAction,
};
use rustc_middle::ty::{self, Instance, Ty, TyCtxt, TypeVisitableExt, TypingEnv};
use rustc_span::Span;
use std::fmt::Write as _;

// ---------------------------------------------------------------- JSON helpers

fn esc(s: &str) -> String {
    let mut o = String::with_capacity(s.len() + 2);
    o.push('"');
    for c in s.chars() {
        match c {
            '"' => o.push_str("\\\""),
            '\\' => o.push_str("\\\\"),
            '\n' => o.push_str("\\n"),
            '\r' => o.push_str("\\r"),
            '\t' => o.push_str("\\t"),
            c if (c as u32) < 0x20 => {
                let _ = write!(o, "\\u{:04x}", c as u32);
            }
            c => o.push(c),
        }
    }
    o.push('"');
    o
}

fn arr(items: &[String]) -> String {
    let mut o = String::from("[");
    for (i, it) in items.iter().enumerate() {
        if i > 0 {
            o.push(',');
        }
        o.push_str(it);
    }
    o.push(']');
    o
}

fn obj(fields: &[(&str, String)]) -> String {
    let mut o = String::from("{");
    for (i, (k, v)) in fields.iter().enumerate() {
        if i > 0 {
            o.push(',');
        }
        o.push_str(&esc(k));
        o.push(':');
        o.push_str(v);
    }
    o.push('}');
    o
}

fn opt(s: Option<String>) -> String {
    s.unwrap_or_else(|| "null".to_string())
}

fn bytes_json(b: &[u8]) -> String {
    let v: Vec<String> = b.iter().map(|x| x.to_string()).collect();
    arr(&v)
}

// ---------------------------------------------------------------- extractor

struct Ex<'tcx> {
    tcx: TyCtxt<'tcx>,
}

impl<'tcx> Ex<'tcx> {
    fn span(&self, sp: Span) -> String {
        let sm = self.tcx.sess.source_map();
        let callsite = sp.source_callsite();
        let lo = sm.lookup_char_pos(callsite.lo());
        let file = format!("{}", lo.file.name.prefer_local_unconditionally());
        let mut f = vec![
            ("file", esc(&file)),
            ("line", lo.line.to_string()),
            ("col", (lo.col.0 + 1).to_string()),
            ("exp", (sp.from_expansion()).to_string()),
        ];
        if sp.from_expansion() {
            let ed = sp.ctxt().outer_expn_data();
            f.push(("macro", esc(&format!("{:?}", ed.kind))));
        }
        obj(&f)
    }

    fn adt_path_of(&self, ty: Ty<'tcx>) -> Option<String> {
        let t = ty.peel_refs();
        match t.kind() {
            ty::Adt(def, _) => Some(self.tcx.def_path_str(def.did())),
            _ => None,
        }
    }

    fn ty_json(&self, ty: Ty<'tcx>) -> String {
        let mut f = vec![("s", esc(&ty.to_string()))];
        if let Some(p) = self.adt_path_of(ty) {
            f.push(("adt", esc(&p)));
        }
        match ty.kind() {
            ty::Closure(did, _) | ty::Coroutine(did, _) | ty::CoroutineClosure(did, _) => {
                f.push(("closure", esc(&self.tcx.def_path_str(*did))));
            }
            ty::FnDef(did, _) => {
                f.push(("fndef", esc(&self.tcx.def_path_str(*did))));
            }
            _ => {}
        }
        obj(&f)
    }

    fn place(&self, body: &Body<'tcx>, p: &Place<'tcx>) -> String {
        let mut projs = Vec::new();
        for (base, elem) in p.as_ref().iter_projections() {
            let base_ty = PlaceRef { local: base.local, projection: base.projection }
                .ty(&body.local_decls, self.tcx);
            let j = match elem {
                ProjectionElem::Deref => obj(&[("k", esc("deref"))]),
                ProjectionElem::Field(idx, fty) => {
                    let mut name: Option<String> = None;
                    match base_ty.ty.kind() {
                        ty::Adt(def, _) => {
                            let vidx = base_ty
                                .variant_index
                                .unwrap_or(rustc_abi::VariantIdx::from_u32(0));
                            if def.is_enum() || def.is_struct() || def.is_union() {
                                if vidx.as_usize() < def.variants().len() {
                                    let v = def.variant(vidx);
                                    if idx.as_usize() < v.fields.len() {
                                        name = Some(v.fields[idx].name.to_string());
                                    }
                                }
                            }
                        }
                        ty::Closure(did, _) | ty::Coroutine(did, _) => {
                            if let Some(ldid) = did.as_local() {
                                let caps = self.tcx.closure_captures(ldid);
                                if idx.as_usize() < caps.len() {
                                    name = Some(caps[idx.as_usize()].to_string(self.tcx));
                                }
                            }
                        }
                        _ => {}
                    }
                    let of = self.adt_path_of(base_ty.ty);
                    obj(&[
                        ("k", esc("field")),
                        ("i", idx.as_usize().to_string()),
                        ("name", opt(name.map(|n| esc(&n)))),
                        ("ty", esc(&fty.to_string())),
                        ("of", opt(of.map(|n| esc(&n)))),
                    ])
                }
                ProjectionElem::Index(l) => {
                    obj(&[("k", esc("index")), ("local", l.as_usize().to_string())])
                }
                ProjectionElem::ConstantIndex { offset, min_length, from_end } => obj(&[
                    ("k", esc("const_index")),
                    ("offset", offset.to_string()),
                    ("min_length", min_length.to_string()),
                    ("from_end", from_end.to_string()),
                ]),
                ProjectionElem::Subslice { from, to, from_end } => obj(&[
                    ("k", esc("subslice")),
                    ("from", from.to_string()),
                    ("to", to.to_string()),
                    ("from_end", from_end.to_string()),
                ]),
                ProjectionElem::Downcast(name, vidx) => {
                    let mut vname = name.map(|s| s.to_string());
                    if vname.is_none() {
                        if let ty::Adt(def, _) = base_ty.ty.kind() {
                            if vidx.as_usize() < def.variants().len() {
                                vname = Some(def.variant(vidx).name.to_string());
                            }
                        }
                    }
                    let adt = self.adt_path_of(base_ty.ty);
                    obj(&[
                        ("k", esc("downcast")),
                        ("variant", opt(vname.map(|n| esc(&n)))),
                        ("idx", vidx.as_usize().to_string()),
                        ("adt", opt(adt.map(|n| esc(&n)))),
                    ])
                }
                ProjectionElem::OpaqueCast(_) => obj(&[("k", esc("opaque_cast"))]),
                ProjectionElem::UnwrapUnsafeBinder(_) => obj(&[("k", esc("unwrap_binder"))]),
            };
            projs.push(j);
        }
        obj(&[("local", p.local.as_usize().to_string()), ("proj", arr(&projs))])
    }

    fn alloc_bytes(&self, alloc_id: rustc_middle::mir::interpret::AllocId, off: usize, len: Option<usize>) -> Option<Vec<u8>> {
        let ga = self.tcx.try_get_global_alloc(alloc_id)?;
        let mem = match ga {
            rustc_middle::mir::interpret::GlobalAlloc::Memory(m) => m,
            _ => return None,
        };
        let a = mem.inner();
        let total = a.len();
        let end = match len {
            Some(l) => off.checked_add(l)?,
            None => total,
        };
        if end > total || off > end {
            return None;
        }
        Some(a.inspect_with_uninit_and_ptr_outside_interpreter(off..end).to_vec())
    }

    fn constant(&self, owner: DefId, c: &mir::ConstOperand<'tcx>) -> String {
        let ty = c.const_.ty();
        let mut f = vec![
            ("k", esc("const")),
            ("ty", self.ty_json(ty)),
            ("text", esc(&format!("{}", c.const_))),
        ];
        if let ty::FnDef(did, args) = ty.kind() {
            f.push(("fn", self.callee_json(owner, *did, args)));
            return obj(&f);
        }
        if let mir::Const::Unevaluated(uv, _) = c.const_ {
            f.push(("item", esc(&self.tcx.def_path_str(uv.def))));
            if let Some(p) = uv.promoted {
                f.push(("promoted", p.as_usize().to_string()));
            }
        }
        let env = TypingEnv::post_analysis(self.tcx, owner);
        let generic = c.const_.has_non_region_param();
        if !generic {
            if let Ok(val) = c.const_.eval(self.tcx, env, c.span) {
                match val {
                    ConstValue::Scalar(s) => {
                        if let Ok(i) = s.try_to_scalar_int() {
                            let size = i.size();
                            f.push(("bits", esc(&i.to_bits(size).to_string())));
                            f.push(("size", size.bytes().to_string()));
                        }
                    }
                    ConstValue::ZeroSized => {
                        f.push(("zst", "true".to_string()));
                    }
                    ConstValue::Slice { alloc_id, meta } => {
                        if let Some(b) = self.alloc_bytes(alloc_id, 0, Some(meta as usize)) {
                            f.push(("bytes", bytes_json(&b)));
                        }
                    }
                    ConstValue::Indirect { alloc_id, offset } => {
                        // arrays of u8 and the like: dump the allocation from `offset`
                        let is_ref = matches!(ty.kind(), ty::Ref(..));
                        if is_ref {
                            let inner = ty.peel_refs();
                            let is_bytes = match inner.kind() {
                                ty::Str => true,
                                ty::Slice(t) => t.is_integral(),
                                _ => false,
                            };
                            if is_bytes {
                                if let Some(b) = val.try_get_slice_bytes_for_diagnostics(self.tcx) {
                                    f.push(("bytes", bytes_json(b)));
                                }
                            }
                        } else if let Some(b) =
                            self.alloc_bytes(alloc_id, offset.bytes() as usize, None)
                        {
                            if b.len() <= 4096 {
                                f.push(("bytes", bytes_json(&b)));
                            }
                        }
                    }
                }
            }
        }
        obj(&f)
    }

    fn operand(&self, owner: DefId, body: &Body<'tcx>, o: &Operand<'tcx>) -> String {
        match o {
            Operand::Copy(p) => obj(&[("k", esc("copy")), ("place", self.place(body, p))]),
            Operand::Move(p) => obj(&[("k", esc("move")), ("place", self.place(body, p))]),
            Operand::Constant(c) => self.constant(owner, c),
            _ => obj(&[("k", esc("other")), ("text", esc(&format!("{:?}", o)))]),
        }
    }

    fn callee_json(&self, owner: DefId, did: DefId, args: ty::GenericArgsRef<'tcx>) -> String {
        let tcx = self.tcx;
        let path = tcx.def_path_str(did);
        let full = tcx.def_path_str_with_args(did, args);
        let mut f = vec![
            ("path", esc(&path)),
            ("full", esc(&full)),
            ("local", did.is_local().to_string()),
            ("name", esc(&tcx.item_name(did).to_string())),
        ];
        let gargs: Vec<String> = args.iter().map(|a| esc(&format!("{}", a))).collect();
        f.push(("generic_args", arr(&gargs)));
        if matches!(tcx.def_kind(did), DefKind::AssocFn) {
            if let Some(tr) = tcx.trait_of_assoc(did) {
                f.push(("trait", esc(&tcx.def_path_str(tr))));
                if let Some(st) = args.types().next() {
                    f.push(("self_ty", self.ty_json(st)));
                }
            } else if let Some(im) = tcx.impl_of_assoc(did) {
                let st = tcx.type_of(im).instantiate_identity().skip_norm_wip();
                f.push(("impl_self_ty", self.ty_json(st)));
            }
        }
        // try to resolve trait calls to a concrete implementation
        let env = TypingEnv::post_analysis(tcx, owner);
        let generic_free = !args.iter().any(|a| a.has_non_region_param());
        if generic_free || true {
            if let Ok(Some(inst)) = Instance::try_resolve(tcx, env, did, args) {
                let rdid = inst.def_id();
                if rdid != did {
                    f.push(("resolved", esc(&tcx.def_path_str(rdid))));
                    f.push(("resolved_local", rdid.is_local().to_string()));
                }
                if let ty::InstanceKind::Item(_) = inst.def {
                } else {
                    f.push(("instance_kind", esc(&format!("{:?}", inst.def).chars().take(80).collect::<String>())));
                }
            }
        }
        obj(&f)
    }

    fn rvalue(&self, owner: DefId, body: &Body<'tcx>, rv: &Rvalue<'tcx>) -> String {
        match rv {
            Rvalue::Use(o, ..) => obj(&[("k", esc("use")), ("op", self.operand(owner, body, o))]),
            Rvalue::Repeat(o, n) => obj(&[
                ("k", esc("repeat")),
                ("op", self.operand(owner, body, o)),
                ("n", esc(&format!("{}", n))),
            ]),
            Rvalue::Ref(_, bk, p) => obj(&[
                ("k", esc("ref")),
                ("mut", matches!(bk, BorrowKind::Mut { .. }).to_string()),
                ("place", self.place(body, p)),
            ]),
            Rvalue::RawPtr(_, p) => obj(&[("k", esc("raw_ptr")), ("place", self.place(body, p))]),
            Rvalue::Cast(kind, o, ty) => obj(&[
                ("k", esc("cast")),
                ("kind", esc(&format!("{:?}", kind))),
                ("op", self.operand(owner, body, o)),
                ("ty", self.ty_json(*ty)),
            ]),
            Rvalue::BinaryOp(op, ab) => obj(&[
                ("k", esc("binop")),
                ("op", esc(&format!("{:?}", op))),
                ("a", self.operand(owner, body, &ab.0)),
                ("b", self.operand(owner, body, &ab.1)),
            ]),
            Rvalue::UnaryOp(op, o) => obj(&[
                ("k", esc("unop")),
                ("op", esc(&format!("{:?}", op))),
                ("a", self.operand(owner, body, o)),
            ]),
            Rvalue::Discriminant(p) => {
                let pty = p.ty(&body.local_decls, self.tcx).ty;
                obj(&[
                    ("k", esc("discriminant")),
                    ("place", self.place(body, p)),
                    ("adt", opt(self.adt_path_of(pty).map(|s| esc(&s)))),
                ])
            }
            Rvalue::Aggregate(kind, ops) => {
                let opsj: Vec<String> = ops.iter().map(|o| self.operand(owner, body, o)).collect();
                let kj = match &**kind {
                    AggregateKind::Array(t) => obj(&[("k", esc("array")), ("ty", self.ty_json(*t))]),
                    AggregateKind::Tuple => obj(&[("k", esc("tuple"))]),
                    AggregateKind::Adt(did, vidx, _, _, _) => {
                        let def = self.tcx.adt_def(*did);
                        let v = def.variant(*vidx);
                        let fnames: Vec<String> =
                            v.fields.iter().map(|fd| esc(&fd.name.to_string())).collect();
                        obj(&[
                            ("k", esc("adt")),
                            ("adt", esc(&self.tcx.def_path_str(*did))),
                            ("variant", esc(&v.name.to_string())),
                            ("idx", vidx.as_usize().to_string()),
                            ("fields", arr(&fnames)),
                        ])
                    }
                    AggregateKind::Closure(did, _) => obj(&[
                        ("k", esc("closure")),
                        ("body", esc(&self.tcx.def_path_str(*did))),
                    ]),
                    AggregateKind::Coroutine(did, _) => obj(&[
                        ("k", esc("coroutine")),
                        ("body", esc(&self.tcx.def_path_str(*did))),
                    ]),
                    AggregateKind::CoroutineClosure(did, _) => obj(&[
                        ("k", esc("coroutine_closure")),
                        ("body", esc(&self.tcx.def_path_str(*did))),
                    ]),
                    AggregateKind::RawPtr(..) => obj(&[("k", esc("raw_ptr"))]),
                };
                obj(&[("k", esc("aggregate")), ("kind", kj), ("ops", arr(&opsj))])
            }
            Rvalue::CopyForDeref(p) => {
                obj(&[("k", esc("use")), ("op", obj(&[("k", esc("copy")), ("place", self.place(body, p))]))])
            }
            other => obj(&[("k", esc("other")), ("text", esc(&format!("{:?}", other)))]),
        }
    }

    fn unwind(&self, u: &UnwindAction) -> String {
        match u {
            UnwindAction::Cleanup(bb) => bb.as_usize().to_string(),
            _ => "null".to_string(),
        }
    }

    fn bb(&self, b: BasicBlock) -> String {
        b.as_usize().to_string()
    }

    fn terminator(&self, owner: DefId, body: &Body<'tcx>, t: &mir::Terminator<'tcx>) -> String {
        let sp = ("span", self.span(t.source_info.span));
        match &t.kind {
            TerminatorKind::Goto { target } => {
                obj(&[("k", esc("goto")), ("target", self.bb(*target)), sp])
            }
            TerminatorKind::SwitchInt { discr, targets } => {
                let mut ts = Vec::new();
                for (v, bb) in targets.iter() {
                    ts.push(arr(&[esc(&v.to_string()), self.bb(bb)]));
                }
                let dty = discr.ty(&body.local_decls, self.tcx);
                obj(&[
                    ("k", esc("switch")),
                    ("discr", self.operand(owner, body, discr)),
                    ("discr_ty", esc(&dty.to_string())),
                    ("targets", arr(&ts)),
                    ("otherwise", self.bb(targets.otherwise())),
                    sp,
                ])
            }
            TerminatorKind::Return => obj(&[("k", esc("return")), sp]),
            TerminatorKind::Unreachable => obj(&[("k", esc("unreachable")), sp]),
            TerminatorKind::UnwindResume => obj(&[("k", esc("resume")), sp]),
            TerminatorKind::UnwindTerminate(_) => obj(&[("k", esc("terminate")), sp]),
            TerminatorKind::Drop { place, target, unwind, .. } => obj(&[
                ("k", esc("drop")),
                ("place", self.place(body, place)),
                ("target", self.bb(*target)),
                ("unwind", self.unwind(unwind)),
                sp,
            ]),
            TerminatorKind::Call { func, args, destination, target, unwind, fn_span, .. } => {
                let fty = func.ty(&body.local_decls, self.tcx);
                let callee = match fty.kind() {
                    ty::FnDef(did, gargs) => self.callee_json(owner, *did, gargs),
                    ty::Closure(did, _) => obj(&[
                        ("path", esc(&self.tcx.def_path_str(*did))),
                        ("kind", esc("closure")),
                        ("local", did.is_local().to_string()),
                    ]),
                    _ => obj(&[
                        ("path", esc(&format!("<indirect:{}>", fty))),
                        ("kind", esc("indirect")),
                        ("local", "false".to_string()),
                        ("op", self.operand(owner, body, func)),
                    ]),
                };
                let argsj: Vec<String> =
                    args.iter().map(|a| self.operand(owner, body, &a.node)).collect();
                obj(&[
                    ("k", esc("call")),
                    ("callee", callee),
                    ("args", arr(&argsj)),
                    ("dest", self.place(body, destination)),
                    ("target", opt(target.map(|b| self.bb(b)))),
                    ("unwind", self.unwind(unwind)),
                    ("fn_span", self.span(*fn_span)),
                    sp,
                ])
            }
            TerminatorKind::TailCall { .. } => obj(&[("k", esc("tailcall")), sp]),
            TerminatorKind::Assert { cond, expected, msg, target, unwind } => {
                let mj = match &**msg {
                    AssertKind::BoundsCheck { len, index } => obj(&[
                        ("k", esc("bounds_check")),
                        ("len", self.operand(owner, body, len)),
                        ("index", self.operand(owner, body, index)),
                    ]),
                    AssertKind::Overflow(op, a, b) => obj(&[
                        ("k", esc("overflow")),
                        ("op", esc(&format!("{:?}", op))),
                        ("a", self.operand(owner, body, a)),
                        ("b", self.operand(owner, body, b)),
                    ]),
                    AssertKind::OverflowNeg(a) => {
                        obj(&[("k", esc("overflow_neg")), ("a", self.operand(owner, body, a))])
                    }
                    AssertKind::DivisionByZero(a) => {
                        obj(&[("k", esc("div_zero")), ("a", self.operand(owner, body, a))])
                    }
                    AssertKind::RemainderByZero(a) => {
                        obj(&[("k", esc("rem_zero")), ("a", self.operand(owner, body, a))])
                    }
                    AssertKind::MisalignedPointerDereference { .. } => {
                        obj(&[("k", esc("misaligned"))])
                    }
                    AssertKind::NullPointerDereference => obj(&[("k", esc("null_deref"))]),
                    other => obj(&[("k", esc("other")), ("text", esc(&format!("{:?}", other)))]),
                };
                obj(&[
                    ("k", esc("assert")),
                    ("cond", self.operand(owner, body, cond)),
                    ("expected", expected.to_string()),
                    ("msg", mj),
                    ("target", self.bb(*target)),
                    ("unwind", self.unwind(unwind)),
                    sp,
                ])
            }
            TerminatorKind::Yield { value, resume, drop, .. } => obj(&[
                ("k", esc("yield")),
                ("value", self.operand(owner, body, value)),
                ("resume", self.bb(*resume)),
                ("drop", opt(drop.map(|b| self.bb(b)))),
                sp,
            ]),
            TerminatorKind::CoroutineDrop => obj(&[("k", esc("coroutine_drop")), sp]),
            TerminatorKind::FalseEdge { real_target, .. } => {
                obj(&[("k", esc("goto")), ("target", self.bb(*real_target)), sp])
            }
            TerminatorKind::FalseUnwind { real_target, .. } => {
                obj(&[("k", esc("goto")), ("target", self.bb(*real_target)), sp])
            }
            TerminatorKind::InlineAsm { .. } => obj(&[("k", esc("inline_asm")), sp]),
        }
    }

    fn body_json(&self, owner: DefId, id: &str, kind: &str, body: &Body<'tcx>, extra: Vec<(&str, String)>) -> String {
        let tcx = self.tcx;
        let mut locals = Vec::new();
        for (l, d) in body.local_decls.iter_enumerated() {
            locals.push(obj(&[
                ("i", l.as_usize().to_string()),
                ("ty", self.ty_json(d.ty)),
                ("mut", matches!(d.mutability, mir::Mutability::Mut).to_string()),
            ]));
        }
        let mut dbg = Vec::new();
        for v in body.var_debug_info.iter() {
            let val = match &v.value {
                mir::VarDebugInfoContents::Place(p) => self.place(body, p),
                mir::VarDebugInfoContents::Const(c) => self.constant(owner, c),
            };
            dbg.push(obj(&[
                ("name", esc(&v.name.to_string())),
                ("value", val),
                ("arg", opt(v.argument_index.map(|i| i.to_string()))),
            ]));
        }
        let mut blocks = Vec::new();
        for (bbi, bb) in body.basic_blocks.iter_enumerated() {
            let mut stmts = Vec::new();
            for s in bb.statements.iter() {
                match &s.kind {
                    StatementKind::Assign(b) => {
                        let (p, rv) = &**b;
                        stmts.push(obj(&[
                            ("k", esc("assign")),
                            ("place", self.place(body, p)),
                            ("rv", self.rvalue(owner, body, rv)),
                            ("span", self.span(s.source_info.span)),
                        ]));
                    }
                    StatementKind::SetDiscriminant { place, variant_index } => {
                        stmts.push(obj(&[
                            ("k", esc("set_discriminant")),
                            ("place", self.place(body, place)),
                            ("idx", variant_index.as_usize().to_string()),
                            ("span", self.span(s.source_info.span)),
                        ]));
                    }
                    _ => {}
                }
            }
            let term = self.terminator(owner, body, bb.terminator());
            blocks.push(obj(&[
                ("i", bbi.as_usize().to_string()),
                ("cleanup", bb.is_cleanup.to_string()),
                ("stmts", arr(&stmts)),
                ("term", term),
            ]));
        }
        let mut f = vec![
            ("id", esc(id)),
            ("kind", esc(kind)),
            ("span", self.span(body.span)),
            ("arg_count", body.arg_count.to_string()),
            ("locals", arr(&locals)),
            ("debug", arr(&dbg)),
            ("blocks", arr(&blocks)),
        ];
        for e in extra {
            f.push(e);
        }
        let _ = tcx;
        obj(&f)
    }

    fn run(&self) -> String {
        let tcx = self.tcx;
        let mut bodies = Vec::new();
        let mut n_promoted = 0usize;
        for ldid in tcx.hir_body_owners() {
            let did = ldid.to_def_id();
            let dk = tcx.def_kind(did);
            let kind = match dk {
                DefKind::Fn => "fn",
                DefKind::AssocFn => "assoc_fn",
                DefKind::Closure => "closure",
                DefKind::Const { .. } | DefKind::AssocConst { .. } | DefKind::AnonConst | DefKind::InlineConst | DefKind::Static { .. } => {
                    continue;
                }
                _ => continue,
            };
            let id = tcx.def_path_str(did);
            let body = tcx.optimized_mir(did);
            let mut extra: Vec<(&str, String)> = Vec::new();
            // parent (for closures) and enclosing impl
            if matches!(dk, DefKind::Closure) {
                let parent = tcx.typeck_root_def_id(did);
                extra.push(("root", esc(&tcx.def_path_str(parent))));
                let p = tcx.parent(did);
                extra.push(("parent", esc(&tcx.def_path_str(p))));
                let cty = tcx.type_of(did).instantiate_identity().skip_norm_wip();
                if let ty::Closure(_, args) = cty.kind() {
                    let ups: Vec<String> =
                        args.as_closure().upvar_tys().iter().map(|t| self.ty_json(t)).collect();
                    extra.push(("upvar_tys", arr(&ups)));
                }
                if tcx.is_coroutine(did) || tcx.coroutine_kind(did).is_some() {
                    extra.push(("coroutine", "true".to_string()));
                }
                let caps = tcx.closure_captures(ldid);
                let cn: Vec<String> = caps.iter().map(|c| esc(&c.to_string(tcx))).collect();
                extra.push(("captures", arr(&cn)));
            } else {
                let vis = tcx.visibility(did);
                extra.push(("vis", esc(&format!("{:?}", vis))));
                let sig = tcx.fn_sig(did).instantiate_identity().skip_norm_wip().skip_binder();
                let ins: Vec<String> = sig.inputs().iter().map(|t| self.ty_json(*t)).collect();
                extra.push(("inputs", arr(&ins)));
                extra.push(("output", self.ty_json(sig.output())));
                if matches!(dk, DefKind::AssocFn) {
                    if let Some(im) = tcx.impl_of_assoc(did) {
                        let st = tcx.type_of(im).instantiate_identity().skip_norm_wip();
                        extra.push(("impl_self_ty", self.ty_json(st)));
                        if let Some(tr) = tcx.impl_opt_trait_ref(im) {
                            let tr = tr.instantiate_identity().skip_norm_wip();
                            extra.push(("impl_trait", esc(&tcx.def_path_str(tr.def_id))));
                        }
                    }
                    if let Some(tr) = tcx.trait_of_assoc(did) {
                        extra.push(("in_trait", esc(&tcx.def_path_str(tr))));
                    }
                }
                if tcx.coroutine_kind(did).is_some() {
                    extra.push(("coroutine", "true".to_string()));
                }
            }
            let in_test = self.in_test_item(ldid);
            extra.push(("in_test", in_test.to_string()));
            extra.push(("derived", tcx.is_automatically_derived(match dk {
                DefKind::AssocFn => tcx.parent(did),
                _ => did,
            }).to_string()));
            bodies.push(self.body_json(did, &id, kind, body, extra));
            // promoted constants of this body
            let proms = tcx.promoted_mir(did);
            for (pi, pb) in proms.iter_enumerated() {
                let pid = format!("{}::promoted[{}]", id, pi.as_usize());
                bodies.push(self.body_json(did, &pid, "promoted", pb, vec![("of", esc(&id))]));
                n_promoted += 1;
            }
            // coroutine body (async fn): the closure-like child is itself a body owner
        }

        // ADTs, traits
        let mut adts = Vec::new();
        let mut traits = Vec::new();
        let mut consts = Vec::new();
        for ldid in tcx.hir_crate_items(()).definitions() {
            let did = ldid.to_def_id();
            match tcx.def_kind(did) {
                DefKind::Struct | DefKind::Enum | DefKind::Union => {
                    let def = tcx.adt_def(did);
                    let mut vs = Vec::new();
                    for (vi, v) in def.variants().iter_enumerated() {
                        let mut fs = Vec::new();
                        for (fi, fd) in v.fields.iter_enumerated() {
                            let fty_raw = tcx.type_of(fd.did).instantiate_identity();
                            // (array lengths written as named constants are evaluated)
                            let fenv = ty::TypingEnv::post_analysis(tcx, did);
                            let fty = tcx.try_normalize_erasing_regions(fenv, fty_raw).unwrap_or(fty_raw.skip_norm_wip());
                            fs.push(obj(&[
                                ("i", fi.as_usize().to_string()),
                                ("name", esc(&fd.name.to_string())),
                                ("ty", self.ty_json(fty)),
                                ("vis", esc(&format!("{:?}", fd.vis))),
                            ]));
                        }
                        vs.push(obj(&[
                            ("name", esc(&v.name.to_string())),
                            ("idx", vi.as_usize().to_string()),
                            ("fields", arr(&fs)),
                        ]));
                    }
                    adts.push(obj(&[
                        ("path", esc(&tcx.def_path_str(did))),
                        ("kind", esc(if def.is_enum() { "enum" } else { "struct" })),
                        ("variants", arr(&vs)),
                        ("in_test", self.in_test_item(ldid).to_string()),
                        ("span", self.span(tcx.def_span(did))),
                    ]));
                }
                DefKind::Trait => {
                    let mut ms = Vec::new();
                    for it in tcx.associated_items(did).in_definition_order() {
                        if let ty::AssocKind::Fn { has_self, .. } = it.kind {
                            let sig = tcx.fn_sig(it.def_id).instantiate_identity().skip_norm_wip().skip_binder();
                            let self_kind = if !has_self {
                                "none".to_string()
                            } else {
                                let t0 = sig.inputs()[0];
                                match t0.kind() {
                                    ty::Ref(_, _, m) => {
                                        if m.is_mut() { "mut".to_string() } else { "ref".to_string() }
                                    }
                                    _ => "value".to_string(),
                                }
                            };
                            let ins: Vec<String> = sig.inputs().iter().map(|t| self.ty_json(*t)).collect();
                            ms.push(obj(&[
                                ("name", esc(&it.name().to_string())),
                                ("self_kind", esc(&self_kind)),
                                ("inputs", arr(&ins)),
                                ("output", self.ty_json(sig.output())),
                            ]));
                        }
                    }
                    traits.push(obj(&[
                        ("path", esc(&tcx.def_path_str(did))),
                        ("methods", arr(&ms)),
                    ]));
                }
                DefKind::Const { .. } => {
                    let ty = tcx.type_of(did).instantiate_identity().skip_norm_wip();
                    let mut f = vec![
                        ("path", esc(&tcx.def_path_str(did))),
                        ("ty", self.ty_json(ty)),
                        ("in_test", self.in_test_item(ldid).to_string()),
                    ];
                    if !tcx.generics_of(did).requires_monomorphization(tcx) {
                        if let Ok(val) = tcx.const_eval_poly(did) {
                            match val {
                                ConstValue::Scalar(s) => {
                                    if let Ok(i) = s.try_to_scalar_int() {
                                        f.push(("bits", esc(&i.to_bits(i.size()).to_string())));
                                    }
                                }
                                ConstValue::Indirect { alloc_id, offset } => {
                                    if let Some(b) = self.alloc_bytes(alloc_id, offset.bytes() as usize, None) {
                                        if b.len() <= 4096 {
                                            f.push(("bytes", bytes_json(&b)));
                                        }
                                    }
                                }
                                ConstValue::Slice { alloc_id, meta } => {
                                    if let Some(b) = self.alloc_bytes(alloc_id, 0, Some(meta as usize)) {
                                        f.push(("bytes", bytes_json(&b)));
                                    }
                                }
                                _ => {}
                            }
                        }
                    }
                    consts.push(obj(&f));
                }
                _ => {}
            }
        }

        // impls (which traits are implemented for which local types, derived or not)
        let mut impls = Vec::new();
        for ldid in tcx.hir_crate_items(()).definitions() {
            let did = ldid.to_def_id();
            if let DefKind::Impl { .. } = tcx.def_kind(did) {
                let st = tcx.type_of(did).instantiate_identity().skip_norm_wip();
                let tr = tcx.impl_opt_trait_ref(did).map(|t| {
                    let t = t.instantiate_identity().skip_norm_wip();
                    tcx.def_path_str(t.def_id)
                });
                impls.push(obj(&[
                    ("self_ty", self.ty_json(st)),
                    ("trait", opt(tr.map(|s| esc(&s)))),
                    ("derived", tcx.is_automatically_derived(did).to_string()),
                    ("in_test", self.in_test_item(ldid).to_string()),
                ]));
            }
        }

        // source files the compiler read for this crate
        let sm = tcx.sess.source_map();
        let mut files = Vec::new();
        for sf in sm.files().iter() {
            if sf.cnum == LOCAL_CRATE {
                let name = format!("{}", sf.name.prefer_local_unconditionally());
                files.push(obj(&[
                    ("path", esc(&name)),
                    ("hash", esc(&format!("{}", sf.src_hash))),
                ]));
            }
        }

        let meta = obj(&[
            ("crate", esc(&tcx.crate_name(LOCAL_CRATE).to_string())),
            ("cfg_test", tcx.sess.opts.test.to_string()),
            ("promoted", n_promoted.to_string()),
            ("files", arr(&files)),
        ]);
        obj(&[
            ("meta", meta),
            ("adts", arr(&adts)),
            ("traits", arr(&traits)),
            ("impls", arr(&impls)),
            ("consts", arr(&consts)),
            ("bodies", arr(&bodies)),
        ])
    }

    // true when the item sits inside a module/fn that only exists under cfg(test):
    // approximated by "an enclosing module is named test/tests" or the item has #[test].
    fn in_test_item(&self, ldid: LocalDefId) -> bool {
        let tcx = self.tcx;
        if !tcx.sess.opts.test {
            return false;
        }
        let mut cur = ldid.to_def_id();
        loop {
            if let Some(name) = tcx.opt_item_name(cur) {
                let n = name.to_string();
                if matches!(tcx.def_kind(cur), DefKind::Mod) && (n == "test" || n == "tests" || n == "fake") {
                    return true;
                }
            }
            match tcx.opt_parent(cur) {
                Some(p) => cur = p,
                None => return false,
            }
        }
    }
}

struct Cb {
    crate_name: String,
    out: Option<String>,
}

impl Callbacks for Cb {
    fn after_analysis<'tcx>(
        &mut self,
        _compiler: &rustc_interface::interface::Compiler,
        tcx: TyCtxt<'tcx>,
    ) -> Compilation {
        let name = tcx.crate_name(LOCAL_CRATE).to_string();
        if name != self.crate_name {
            return Compilation::Continue;
        }
        if let Some(out) = &self.out {
            let ex = Ex { tcx };
            let json = ex.run();
            let path = if tcx.sess.opts.test { format!("{}.test.json", out) } else { format!("{}.json", out) };
            std::fs::write(&path, json).expect("cannot write facts");
        }
        Compilation::Continue
    }
}

fn main() {
    let mut args: Vec<String> = std::env::args().collect();
    // RUSTC_WORKSPACE_WRAPPER passes: <driver> <rustc> <args...>
    if args.len() > 1 && (args[1].ends_with("rustc") || args[1].contains("/rustc")) {
        args.remove(1);
    }
    let crate_name = std::env::var("RULER_FACTS_CRATE").unwrap_or_else(|_| "ruler".to_string());
    let out = std::env::var("RULER_FACTS_OUT").ok();
    let mut cb = Cb { crate_name, out };
    rustc_driver::run_compiler(&args, &mut cb);
}
