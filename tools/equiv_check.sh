#!/bin/bash
# Runs every check against every behaviour-preserving refactoring in mutants/equiv/ (or the
# patches given as arguments), EQUIV_JOBS (default 3) at a time.  None may produce a VIOLATION;
# CHECK-ERRORs are listed.  Exit 1 if any VIOLATION was printed.
HERE="$(cd "$(dirname "$0")/.." && pwd)"
P="$@"; [ -z "$P" ] && P="$(ls "$HERE"/mutants/equiv/*.patch "$HERE"/mutants/equiv/*.diff 2>/dev/null)"
JOBS="${EQUIV_JOBS:-3}"
OUTD="$(mktemp -d /tmp/equiv-out.XXXXXX)"
trap 'rm -rf "$OUTD"' EXIT
one() {
  m="$1"; HERE="$2"; OUTD="$3"
  OUT="$("$HERE/tools/mutant.sh" "$m" ALL 2>&1)"
  V="$(echo "$OUT" | grep -E '^C[0-9]+ rc=1' | cut -d' ' -f1 | tr '\n' ' ')"
  E="$(echo "$OUT" | grep -E '^C[0-9]+ rc=2' | cut -d' ' -f1 | tr '\n' ' ')"
  NA="$(echo "$OUT" | grep -c PATCH-DOES-NOT-APPLY)"
  {
    if [ "$NA" != "0" ]; then echo "$(basename $m): does not apply"; exit 0; fi
    echo "$(basename $m): violations-in=[$V] check-errors-in=[$E]"
    if [ -n "$V" ]; then echo "$OUT" | grep -E '^C[0-9]+ rc=1' | cut -c1-260; fi
    if [ -n "$E" ]; then echo "$OUT" | grep -E '^CHECK-ERROR' | sort -u | cut -c1-200 | head -4; fi
  } > "$OUTD/$(basename $m).out"
}
export -f one
echo "$P" | tr ' ' '\n' | grep -v '^$' | xargs -P "$JOBS" -I{} bash -c 'one "$@"' _ {} "$HERE" "$OUTD"
BAD=0
for m in $P; do
  f="$OUTD/$(basename $m).out"
  [ -f "$f" ] && cat "$f"
  grep -q 'violations-in=\[C' "$f" 2>/dev/null && BAD=1
done
exit $BAD
