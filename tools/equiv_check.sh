#!/bin/bash
# Runs every check against every behaviour-preserving refactoring in mutants/equiv/ (or the
# patches given as arguments).  None may produce a VIOLATION; CHECK-ERRORs are listed.
HERE="$(cd "$(dirname "$0")/.." && pwd)"
P="$@"; [ -z "$P" ] && P="$(ls "$HERE"/mutants/equiv/*.patch "$HERE"/mutants/equiv/*.diff 2>/dev/null)"
BAD=0
for m in $P; do
  OUT="$("$HERE/tools/mutant.sh" "$m" ALL 2>&1)"
  V="$(echo "$OUT" | grep -E '^C[0-9]+ rc=1' | cut -d' ' -f1 | tr '\n' ' ')"
  E="$(echo "$OUT" | grep -E '^C[0-9]+ rc=2' | cut -d' ' -f1 | tr '\n' ' ')"
  NA="$(echo "$OUT" | grep -c PATCH-DOES-NOT-APPLY)"
  if [ "$NA" != "0" ]; then echo "$(basename $m): does not apply"; continue; fi
  echo "$(basename $m): violations-in=[$V] check-errors-in=[$E]"
  if [ -n "$V" ]; then BAD=1; echo "$OUT" | grep -E '^C[0-9]+ rc=1' | cut -c1-260; fi
  if [ -n "$E" ]; then echo "$OUT" | grep -E '^CHECK-ERROR' | sort -u | cut -c1-200 | head -4; fi
done
exit $BAD
