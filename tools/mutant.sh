#!/bin/bash
# usage: mutant.sh <patch> <PROP> [<PROP>...]   (PROP = C01.. or ALL)
# Applies <patch> to a scratch copy of /repo (never to /repo itself), runs the listed
# checks against the copy, prints one line per property, removes the copy.
set -u
HERE="$(cd "$(dirname "$0")/.." && pwd)"
PATCH="$(readlink -f "$1")"; shift
D="$(mktemp -d /tmp/ruler-mut.XXXXXX)"
trap 'rm -rf "$D"' EXIT
mkdir -p "$D/r"
cp -r /repo/src /repo/Cargo.toml /repo/Cargo.lock "$D/r/"
(cd "$D/r" && git init -q . && git apply "$PATCH") || { echo "PATCH-DOES-NOT-APPLY $PATCH"; exit 3; }
PROPS="$*"
[ "$PROPS" = "ALL" ] && PROPS="$(seq -f 'C%02g' 1 20)"
# evidence of /repo must not be overwritten by mutant runs
export VERIF_EVIDENCE_DIR="$D/evidence"
first=1
for P in $PROPS; do
  OUT="$("$HERE/check" "$P" --src "$D/r" 2>&1)"; RC=$?
  V="$(echo "$OUT" | grep -c '^VIOLATION')"
  E="$(echo "$OUT" | grep -c '^CHECK-ERROR')"
  echo "$P rc=$RC violations=$V errors=$E $(echo "$OUT" | grep -E '^  C[0-9]+\.R' | sed 's/  \[.*//' | cut -c1-150 | head -3 | tr '\n' '|')"
  [ $E -gt 0 ] && echo "$OUT" | grep '^CHECK-ERROR' | head -3
done
