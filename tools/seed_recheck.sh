#!/bin/bash
# usage: seed_recheck.sh [name ...]
# Re-runs every check against every kept seeded break (seeded/*/patch.diff) and refreshes the
# `checks_reporting_it` / `checks_erroring` fields of its meta.json.
HERE="$(cd "$(dirname "$0")/.." && pwd)"
DIRS="$HERE/seeded/*/"
if [ $# -gt 0 ]; then DIRS=""; for n in "$@"; do DIRS="$DIRS $HERE/seeded/$n/"; done; fi
for d in $DIRS; do
  n="$(basename "$d")"
  CHK="$("$HERE/tools/mutant.sh" "$d/patch.diff" ALL 2>&1)"
  DET="$(echo "$CHK" | grep -E '^C[0-9]+ rc=1' | cut -d' ' -f1 | tr '\n' ' ')"
  ERR="$(echo "$CHK" | grep -E '^C[0-9]+ rc=2' | cut -d' ' -f1 | tr '\n' ' ')"
  RULES="$(echo "$CHK" | grep -oE 'C[0-9]+\.R[0-9]+b?' | sort -u | tr '\n' ' ')"
  python3 - "$d/meta.json" "$DET" "$ERR" "$RULES" <<'PY'
import json, sys
p, det, err, rules = sys.argv[1:5]
m = json.load(open(p))
m["checks_reporting_it"] = det.split(); m["checks_erroring"] = err.split(); m["rules_reporting_it"] = rules.split()
json.dump(m, open(p, "w"), indent=1)
print(m["name"], "breaks", m["breaks_property"], "| reported by", det, "| rules", rules, "| errors", err)
PY
done
