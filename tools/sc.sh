#!/bin/bash
# usage: sc.sh <dir> <PROP>...   - run checks on a scratch.sh directory
HERE="$(cd "$(dirname "$0")/.." && pwd)"
D="$1"; shift
export VERIF_EVIDENCE_DIR="$D/ev"
for P in "$@"; do "$HERE/check" $P --src "$D" --facts "$D/facts.json" | grep -E "VIOLATION|CHECK-ERROR|^  C" | cut -c1-400; done
