#!/bin/bash
# usage: seed_eval.sh <name> <dir-with patch.diff demo.diff README.md> [prop]
# Confirms a sub-agent's seeded break in a fresh scratch worktree (demo passes without the
# change, fails with it; the existing suite passes with the change), runs every check against
# the changed tree, and files everything under /verif/seeded/<name>/.
set -u
NAME="$1"; SRC="$2"; PROP="${3:-}"
HERE="$(cd "$(dirname "$0")/.." && pwd)"
WT="/tmp/sv/$NAME"
rm -rf "$WT"; mkdir -p /tmp/sv
git -C /repo worktree add -q --detach "$WT" HEAD || exit 3
cp -r /repo/target "$WT/target"
export CARGO_TARGET_DIR="$WT/target" CARGO_NET_OFFLINE=true
cd "$WT"
R_A="?"; R_B="?"; R_C="?"
git apply "$SRC/demo.diff" || { echo "demo.diff does not apply"; R_A="demo-does-not-apply"; }
if [ "$R_A" = "?" ]; then
  cargo test --offline seeded_demo > "$WT/a.log" 2>&1; R_A="$(grep -E '^test result' "$WT/a.log" | tail -1)"
  git apply "$SRC/patch.diff" || { echo "patch.diff does not apply on top of demo"; R_B="patch-does-not-apply"; }
  if [ "$R_B" = "?" ]; then
    cargo test --offline seeded_demo > "$WT/b.log" 2>&1; R_B="$(grep -E '^test result' "$WT/b.log" | tail -1)"
  fi
  git checkout -q -- . ; git clean -fdq -e target -e '*.log'
  git apply "$SRC/patch.diff"
  cargo test --offline > "$WT/c.log" 2>&1; R_C="$(grep -E '^test result' "$WT/c.log" | tail -1)"
fi
echo "a (demo, no change): $R_A"
echo "b (demo, change)   : $R_B"
echo "c (suite, change)  : $R_C"
cd "$HERE"
CHK="$("$HERE/tools/mutant.sh" "$SRC/patch.diff" ALL 2>&1)"
echo "$CHK" | grep -v "rc=0 violations=0 errors=0"
DET="$(echo "$CHK" | grep -E '^C[0-9]+ rc=1' | cut -d' ' -f1 | tr '\n' ' ')"
ERR="$(echo "$CHK" | grep -E '^C[0-9]+ rc=2' | cut -d' ' -f1 | tr '\n' ' ')"
mkdir -p "$HERE/seeded/$NAME"
cp "$SRC/patch.diff" "$SRC/demo.diff" "$HERE/seeded/$NAME/" 2>/dev/null
cp "$SRC/README.md" "$HERE/seeded/$NAME/README.md" 2>/dev/null
python3 - "$NAME" "$PROP" "$R_A" "$R_B" "$R_C" "$DET" "$ERR" <<'PY'
import json, sys, os
name, prop, a, b, c, det, err = sys.argv[1:8]
here = "/verif"
ok = ("passed" in a and " 0 failed" in a and "FAILED" in b or "failed" in b and " 0 failed" not in b) and ("209 passed" in c and " 0 failed" in c)
meta = {"name": name, "breaks_property": prop, "confirmed": bool(ok),
        "ran": {"a_demo_without_change": a, "b_demo_with_change": b, "c_existing_suite_with_change": c,
                "commands": ["git apply demo.diff; cargo test --offline seeded_demo", "git apply patch.diff; cargo test --offline seeded_demo", "(patch only) cargo test --offline", "tools/mutant.sh patch.diff ALL"]},
        "checks_reporting_it": det.split(), "checks_erroring": err.split(),
        "first_run": {"checks_reporting_it": det.split(), "checks_erroring": err.split()},
        "needs_to_manifest": "see README.md"}
json.dump(meta, open(os.path.join(here, "seeded", name, "meta.json"), "w"), indent=1)
print("confirmed=%s detected_by=%s" % (ok, det))
PY
git -C /repo worktree remove --force "$WT"
