#!/bin/bash
# Runs every own mutant (mutants/*.patch) against the checks it is expected to trip
# (mutants/INDEX.json) and prints detected / MISSED per mutant.
HERE="$(cd "$(dirname "$0")/.." && pwd)"
python3 - "$HERE" <<'PY'
import json, subprocess, sys, os
here = sys.argv[1]
idx = json.load(open(os.path.join(here, "mutants", "INDEX.json")))
ms = idx["mutants"] if isinstance(idx, dict) else idx
bad = 0
for m in ms:
    p = os.path.join(here, m["patch"])
    if not os.path.exists(p):
        print("MISSING-PATCH", m["patch"]); bad = 1; continue
    out = subprocess.run([os.path.join(here, "tools", "mutant.sh"), p] + m["expect"], stdout=subprocess.PIPE, stderr=subprocess.STDOUT, text=True).stdout
    det = [l.split()[0] for l in out.splitlines() if " rc=1 " in l]
    err = [l.split()[0] for l in out.splitlines() if " rc=2 " in l]
    st = "detected" if det else ("check-error-only" if err else "MISSED")
    if not det:
        bad = 1
    print("%-50s %-16s reported-by=%s errors=%s" % (os.path.basename(p), st, det, err))
sys.exit(bad)
PY
