#!/bin/bash
# usage: scratch.sh <patch> <dir>   - scratch copy of /repo with <patch> applied and its facts extracted (dev helper)
HERE="$(cd "$(dirname "$0")/.." && pwd)"
PATCH="$(readlink -f "$1")"
rm -rf "$2"; mkdir -p "$2"
cp -r /repo/src /repo/Cargo.toml /repo/Cargo.lock "$2/"
(cd "$2" && git init -q . && git apply "$PATCH") || { echo PATCH-DOES-NOT-APPLY; exit 3; }
"$HERE/engine/extract.sh" "$2" "$2/facts" >/dev/null 2>&1 || { echo EXTRACT-FAILED; tail -20 "$2/facts.log"; exit 2; }
