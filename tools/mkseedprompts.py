#!/usr/bin/env python3
"""mkseedprompts.py <letters-of-earlier-rounds>  - writes /tmp/seed/Cxx.prompt.txt and Cxx.property.json
for the next round of independent seeded breaks (the sub-agent sees only these two files and its worktree)."""
import json, re, sys
rounds = sys.argv[1] if len(sys.argv) > 1 else 'abcdefg'
props = {}
for line in open('/verif/properties.jsonl'):
    line = line.strip()
    if not line:
        continue
    d = json.loads(line); props[d['id']] = d
base = open('/verif/tools/prompts/seed.PROMPT.txt').read()
manual = {"C01-b": "`<=` instead of `==` in the modified-time test of `get_file_ticket` [src/blob.rs]",
          "C06-b": "`SysCache::restore_file` re-using `SysCache::open` (check-then-act) for its preconditions, so that losing a race for a cache entry becomes an error [src/cache.rs]",
          "C10-b": "`clean_targets` returning at the first target that is not a file instead of skipping it [src/work.rs]",
          "C18-a": "the file-state table saved only when every rule of the invocation succeeded [src/build.rs, end of `build()`]"}
for pid in sorted(props):
    ideas = []
    for k, r in enumerate(rounds):
        name = '%s-%s' % (pid, r)
        if name in manual:
            ideas.append('(%d) %s' % (k + 1, manual[name])); continue
        t = open('/verif/seeded/%s/README.md' % name).read().splitlines()
        title = next((l for l in t if l.startswith('#')), '')
        ch = next((l for l in t if re.match(r'^## .*change', l, re.I)), '')
        title = re.sub(r'^#\s*', '', title)
        title = re.sub(r'^(C\d\d )?(seeded bug|seeded break|seed|Seed C\d\d -|Seeded break for C\d\d.*|Seeded bug for C\d\d.*)\s*[:\-—]?\s*', '', title, flags=re.I).strip()
        m = re.search(r'\((.*)\)', ch)
        where = m.group(1) if m else ''
        where = re.sub(r'(out/)?patch\.diff,?\s*', '', where).strip(' ,')
        s = (title + ' [' + where + ']') if title else where
        ideas.append('(%d) %s' % (k + 1, s[:230]))
    t = base.replace('__WT__', '/tmp/seed/' + pid).replace('__PROP__', '/tmp/seed/%s.property.json' % pid).replace('__IDEAS__', '; '.join(ideas))
    open('/tmp/seed/%s.prompt.txt' % pid, 'w').write(t)
    json.dump(props[pid], open('/tmp/seed/%s.property.json' % pid, 'w'), indent=1)
