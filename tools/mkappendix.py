#!/usr/bin/env python3
"""Regenerates Appendix F of DESIGN.md (property -> rules, and every rule's statement) from the
rule registry and the evidence of the last run on /repo."""
import json, os, re, sys
HERE = os.path.dirname(os.path.dirname(os.path.abspath(__file__)))
sys.path.insert(0, os.path.join(HERE, "rules"))
import props, engine
props.load_rule_modules()
counts = {}
for pid in props.PROPS:
    p = os.path.join(HERE, "evidence", pid + ".json")
    if os.path.exists(p):
        ev = json.load(open(p))
        for r, n in ev["coverage"]["rule_instances"].items():
            counts[r] = n
out = ["## Appendix F — the rules as built (generated from the registry: `rules/r_*.py` docstrings, `tools/mkappendix.py`)", "",
       "Property -> rules (shared rules are reported under every property that lists them):", "", "```"]
for pid in sorted(props.PROPS):
    out.append("%s  %s" % (pid, " ".join(props.PROPS[pid]["rules"])))
out += ["```", ""]
def key(r):
    m = re.match(r"C(\d+)\.R(\d+)(b?)", r)
    return (int(m.group(1)), int(m.group(2)), m.group(3))
for rid in sorted(engine.RULES, key=key):
    doc = " ".join((engine.RULES[rid][2] or "").split())
    out.append("* **%s** (instances counted on the pinned tree: %s) — %s" % (rid, counts.get(rid, "?"), doc))
out.append("")
p = os.path.join(HERE, "DESIGN.md")
s = open(p).read()
i = s.index("## Appendix F")
s = s[:i] + "\n".join(out)
open(p, "w").write(s)
print("appendix F: %d rules" % len(engine.RULES))
