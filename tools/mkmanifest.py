#!/usr/bin/env python3
"""Regenerates MANIFEST.json from rules/props.py (single source of truth)."""
import json, os, sys
HERE = os.path.dirname(os.path.dirname(os.path.abspath(__file__)))
sys.path.insert(0, os.path.join(HERE, "rules"))
import props

ALL = ["C%02d" % i for i in range(1, 21)]
checks = []
for pid in ALL:
    if pid not in props.PROPS:
        continue
    s = props.PROPS[pid]
    checks.append({
        "property_id": pid,
        "quick_cmd": "./check %s --tier quick" % pid,
        "thorough_cmd": "./check %s --tier thorough" % pid,
        "evidence_file": "/verif/evidence/%s.json" % pid,
        "replay_cmd_template": "./check %s --explain {path}" % pid,
        "engine": "mir-facts",
        "level_claimed": {
            "category": "other",
            "text": "Static analysis of the type-checked program (MIR): decides named structural necessary conditions of the property on every control-flow path and call site, not the behaviour itself. " + s["explanation"],
            "design_ref": "DESIGN.md section 3, %s" % pid,
        },
        "level_note": "Trusted: rustc type checking / MIR construction, the fact extractor, the Python rules, the std contracts of DESIGN.md section 8. Each rule is a necessary condition; the clauses listed as not decided stay undecided.",
        "technique": s.get("technique", "static analysis: custom MIR dataflow / dominance / who-may-call rules (rustc_private driver)"),
    })
na = [{"property_id": p, "reason": props.NOT_APPLICABLE.get(p, "no sound static rule armed for this property yet; see DESIGN.md section 5")} for p in ALL if p not in props.PROPS]
m = {
    "version": 1,
    "setup_cmd": "./setup.sh",
    "hooks": {
        "guard": "ruler_verif",
        "enable": "none needed: the checks read /repo's working tree through a rustc driver; no hook exists in /repo",
        "baseline_off_cmd": "cd /repo && cargo test --workspace --no-fail-fast --offline",
        "source_commits": props.SOURCE_COMMITS,
        "add_only": True,
    },
    "engines": [{
        "name": "mir-facts", "path": "/verif/engine/driver",
        "serves_properties": [c["property_id"] for c in checks],
        "kind_free_text": "rustc_private driver (nightly) run via RUSTC_WORKSPACE_WRAPPER under cargo check: dumps MIR/type facts of /repo's working tree as JSON; rules in /verif/rules (stdlib Python)",
    }],
    "checks": checks,
    "not_applicable": na,
    "notes": "Repairs of genuine defects in /repo (unguarded `fix:` commits): " + "; ".join(props.FIX_COMMITS) + ". Technique family: static analysis only. Exit codes: 0 held, 1 VIOLATION, 2 CHECK-ERROR (tree cannot be analysed). Known findings: /verif/known_findings.json.",
}
with open(os.path.join(HERE, "MANIFEST.json"), "w") as f:
    json.dump(m, f, indent=1)
print("manifest: %d checks, %d not applicable" % (len(checks), len(na)))
