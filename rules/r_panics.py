"""Panic obligations per root (A10): C05.R5, C14.R1, C15.R5, C16.R3, C19.R4."""
import os
from engine import rule
from roles import Roles
import panics

HERE = os.path.dirname(os.path.abspath(__file__))


def _run(ctx, roots, only=None):
    rows, problems, review = panics.judge(ctx.P, roots, HERE)
    if review:
        ctx.open_obligations = review
    for (f, kind, bb, key, verdict) in rows:
        if only is not None and not only(f):
            continue
        ctx.inst("%s  -- %s" % (key, verdict), f.where(bb))
        ctx.saw(f)
        if verdict.startswith(("discharged", "reviewed")):
            ctx.ok()
    for (key, msg, site) in problems:
        fid = key.split("|")[0]
        if only is not None and not only(ctx.P.fns.get(fid) or ctx.P.fns.get(fid.split("#")[0])):
            continue
        ctx.viol(("panic-site", key), msg, site)


@rule("C05.R5", floor=30)
def c05_r5(ctx):
    """Panic obligations over everything reachable from build and clean, including the thread
    closures: every Assert / explicit panic / unwrap / expect / Index site is discharged by
    a sound local rule (D1 constant index, D2 dominating `< len` guard, D4 counter + 1) or
    matches an entry of the reviewed table (whose supporting fact, if any, is re-verified);
    a new or additional site is reported."""
    R = Roles(ctx.P)
    _run(ctx, [R.entry("build").id, R.entry("clean").id])


@rule("C14.R1", floor=8)
def c14_r1(ctx):
    """The parser never panics: panic obligations over everything reachable from
    rule::parse_all (rule::parse, bundle::*)."""
    _run(ctx, ["rule::parse_all"])


@rule("C15.R5", floor=5)
def c15_r5(ctx):
    """Panic obligations of the base-62 codec and the hashers."""
    roots = ["ticket::Ticket::human_readable", "ticket::Ticket::from_human_readable", "ticket::TicketFactory::from_file", "ticket::TicketFactory::from_directory"]
    _run(ctx, roots)


@rule("C16.R3", floor=0)
def c16_r3(ctx):
    """No panic-capable site in local code (derives included) reachable from the two
    state-reading paths."""
    roots = ["history::History::<SystemType>::read_rule_history", "current::CurrentFileStates::<SystemType>::from_file"]
    # the decoder calls back into this crate: the Deserialize impls (derived or written by hand) of
    # the stored types, their visitors, and the conversions a `#[serde(try_from = ..)]` names
    if any("bincode" in c.path and "deserialize" in c.path for fid in ctx.P.reachable_fns(roots) for c in ctx.P.fns[fid].calls):
        roots = roots + sorted(fid for fid in ctx.P.fns if "serde::Deserialize" in fid or "serde::de::Visitor" in fid or "serde::de::DeserializeSeed" in fid)
    rows, problems, review = panics.judge(ctx.P, roots, HERE)
    ctx.inst("functions reachable from the state readers: %d" % len(ctx.P.reachable_fns(roots)))
    for (f, kind, bb, key, verdict) in rows:
        ctx.inst("%s -- %s" % (key, verdict), f.where(bb))
        if f.id.startswith("current::CurrentFileStates::<SystemType>::to_file"):
            ctx.ok()     # from_file writes an empty table when none exists: serialisation of an empty map
            continue
        if verdict.startswith("discharged"):
            ctx.ok()
        else:
            ctx.viol(("panic-site", key), "a panic-capable site is reachable while reading saved state: damaged state could panic instead of being rejected", f.where(bb))
    ctx.ok()


@rule("C19.R4", floor=1)
def c19_r4(ctx):
    """Request handlers do not panic: panic obligations over the two endpoint closures and
    everything they call."""
    from r_codec import _endpoints
    cls = _endpoints(ctx)
    roots = [c.id for c in cls]
    rows, problems, review = panics.judge(ctx.P, roots, HERE)
    if review:
        ctx.open_obligations = review
    for (f, kind, bb, key, verdict) in rows:
        ctx.inst("%s -- %s" % (key, verdict), f.where(bb))
        if verdict.startswith(("discharged", "reviewed")):
            ctx.ok()
    for (key, msg, site) in problems:
        ctx.viol(("panic-site", key), msg, site)
    if not rows:
        ctx.inst("no panic-capable site reachable from the endpoint closures (%d functions)" % len(ctx.P.reachable_fns(roots)))
        ctx.ok()
