import sys, importlib, traceback
sys.path.insert(0, '/verif/rules')
from lib.mir import load
import engine
for m in sys.argv[2].split(','):
    importlib.import_module(m)
P = load(sys.argv[1])
ids = sys.argv[3].split(',') if len(sys.argv) > 3 else sorted(engine.RULES)
for r in engine.run_rules(P, ids):
    print(r['rule'], 'inst=%d' % len(r['instances']), 'ok=%d' % r['discharged'], 'viol=%d' % len(r['violations']), 'ERR=' + r['error'] if r['error'] else '', r['wall_s'])
    for v in r['violations']:
        print('    VIOL', v.key, v.msg, v.site)
