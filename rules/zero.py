"""Predicates of rule clauses whose expected number of matches on ruler is zero.  The
rules and the positive controls (fixtures/positive) call the same functions."""
from lib.mir import erase_generics

OS_PREFIXES = ("std::fs::", "std::process::Command", "std::process::exit", "std::process::abort", "std::process::Child", "std::os::",
               "execute::", "std::env::set", "std::env::remove", "libc::", "tokio::fs::", "tokio::process::")
BANNED_CAPTURES = ("Arc<", "Rc<", "Mutex<", "RwLock<", "Atomic", "RefCell<", "Cell<", "Condvar", "Barrier", "OnceLock", "OnceCell")
HASH_ITER_METHODS = ("iter", "iter_mut", "keys", "values", "values_mut", "into_iter", "drain", "into_keys", "into_values", "retain")


def os_api_calls(fns):
    """[(fn, callsite)] direct OS file / process API calls."""
    out = []
    for f in fns:
        for c in f.calls:
            p = c.resolved or c.path
            if any(c.path.startswith(x) or p.startswith(x) for x in OS_PREFIXES):
                out.append((f, c))
    return out


def nonblocking_channel_calls(fns):
    out = []
    for f in fns:
        for c in f.calls:
            if c.path.startswith("std::sync::mpsc::Receiver::<T>::") and c.name in ("try_recv", "recv_timeout", "try_iter", "iter", "recv_deadline"):
                out.append((f, c, "recv"))
            if c.path.startswith("std::sync::mpsc::Sender::<T>::") and c.name not in ("send", "clone"):
                out.append((f, c, "send"))
    return out


def hash_order_iterations(fns):
    out = []
    for g in fns:
        for c in g.calls:
            ep = erase_generics(c.path)
            if (ep.startswith("std::collections::HashMap::") or ep.startswith("std::collections::HashSet::")) and c.name in HASH_ITER_METHODS:
                out.append((g, c))
            elif c.path == "std::iter::IntoIterator::into_iter" and c.self_ty and ("HashMap<" in c.self_ty or "HashSet<" in c.self_ty):
                out.append((g, c))
    return out


def shared_captures(closure):
    bad = []
    for sl in closure.capture_slots():
        s = sl["ty"]["s"]
        if any(b in s for b in BANNED_CAPTURES) or s.startswith("&"):
            bad.append("%s: %s" % (".".join(x[1] for x in sl["steps"]), s))
    return bad


def run_positive_controls(P):
    """Every predicate must fire on the fixture.  Returns (fired names, error list)."""
    fns = list(P.fns.values())
    fired, errors = [], []

    def expect(name, n, minimum):
        if n >= minimum:
            fired.append("%s (%d)" % (name, n))
        else:
            errors.append("%s matched %d site(s) of the fixture, expected >= %d" % (name, n, minimum))
    expect("C08.R1 os-api-outside-real", len(os_api_calls(fns)), 3)
    expect("C05.R1 nonblocking-recv", len(nonblocking_channel_calls(fns)), 2)
    expect("C12.R3/C02.R5 hash-order-iteration", len(hash_order_iterations(fns)), 3)
    sp = 0
    for f in fns:
        if f.kind == "closure" and shared_captures(f):
            sp += 1
    expect("C06.R1 shared-capture", sp, 1)
    return fired, errors
