"""Decomposition of strings built with format! (A9) and classification of where a path
string comes from (used by C07/C08/C09/C11/C13/C19)."""
from lib.mir import fmt_origin


def decode_template(b):
    """`Arguments::new::<N,M>` template: 0xC0 placeholder, n<=0x7f literal of n bytes, 0 end.
    Returns list of ('arg',) / ('lit', bytes) or None if the form is not recognised."""
    out = []
    i = 0
    while i < len(b):
        c = b[i]
        if c == 0:
            return out
        if c == 0xC0:
            out.append(("arg",))
            i += 1
        elif c <= 0x7F:
            out.append(("lit", bytes(b[i + 1:i + 1 + c])))
            i += 1 + c
        else:
            return None
    return out


def _const_bytes_of(fn, op, depth=0):
    if op["k"] == "const":
        if "bytes" in op:
            return bytes(op["bytes"])
        if "promoted" in op and depth <= 6:
            # `line == ""` on two `&str`: the right-hand side is a promoted `&""`
            pf = None
            for pid in (op.get("text"), "%s::promoted[%d]" % (op.get("item"), op["promoted"]),
                        "%s::promoted[%d]" % (fn.id if fn.kind != "promoted" else fn.body.get("of"), op["promoted"])):
                cand = fn.prog.fns.get(pid)
                if cand is not None and cand.kind == "promoted":
                    pf = cand
                    break
            if pf is None:
                return None
            return _const_bytes_of(pf, {"k": "copy", "place": {"local": 0, "proj": []}}, depth + 1)
        t = op.get("text", "")
        if t.startswith("const "):
            t = t[6:]
        if t.startswith('b"') and t.endswith('"'):
            import ast
            try:
                v = ast.literal_eval(t)
                return v if isinstance(v, bytes) else None
            except Exception:
                return None
        return None
    if depth > 6 or op["place"]["proj"] and any(e["k"] != "deref" for e in op["place"]["proj"]):
        return None
    for (kind, bb, idx, place, payload) in fn.defs.get(op["place"]["local"], ()):
        if kind != "assign" or place["proj"]:
            continue
        if payload["k"] == "use":
            return _const_bytes_of(fn, payload["op"], depth + 1)
        if payload["k"] == "ref":
            return _const_bytes_of(fn, {"k": "copy", "place": payload["place"]}, depth + 1)
    return None


def format_of_call(fn, cs):
    """cs = call of std::fmt::format(args).  Returns [('lit', bytes) | ('arg', operand, display_ty)] or None."""
    if cs.path != "std::fmt::format":
        return None
    org = fn.origins_of_operand(cs.args[0])
    if len(org) != 1:
        return None
    o = next(iter(org))
    if o[0][0] != "call" or not o[0][3].startswith("std::fmt::Arguments"):
        return None
    an = fn.call_at[o[0][2]]
    if len(an.args) < 1:
        return None
    tb = _const_bytes_of(fn, an.args[0])
    if tb is None:
        return None
    tpl = decode_template(tb)
    if tpl is None:
        return None
    args = []
    if len(an.args) > 1:
        ao = fn.origins_of_operand(an.args[1])
        if len(ao) != 1:
            return None
        a = next(iter(ao))
        if a[0][0] != "agg" or a[0][4] != "array":
            return None
        rv = fn.blocks[a[0][2]]["stmts"][a[0][3]]["rv"]
        for x in rv["ops"]:
            xo = fn.origins_of_operand(x)
            if len(xo) != 1:
                return None
            xc = next(iter(xo))
            if xc[0][0] != "call" or "Argument" not in xc[0][3]:
                return None
            ac = fn.call_at[xc[0][2]]
            gen = ac.callee.get("generic_args", [])
            args.append((ac.args[0], ac.name, gen[-1] if gen else ""))
    out = []
    ai = 0
    for piece in tpl:
        if piece[0] == "lit":
            out.append(("lit", piece[1]))
        else:
            if ai >= len(args):
                return None
            out.append(("arg",) + args[ai])
            ai += 1
    return out


def _display_piece(fn, op):
    """One `{}` piece for an operand that is shown with Display: the value shown is what
    `.to_string()` / `.clone()` / `&` were applied to."""
    ty = ""
    org = fn.origins_of_operand(op)
    src = op
    if op["k"] in ("copy", "move"):
        ty = fn.local_ty(op["place"]["local"])["s"]
        # `&ticket.to_string()`: show the ticket, as format!("{}", ticket) does
        cur = op
        for _ in range(6):
            if cur["k"] not in ("copy", "move") or cur["place"]["proj"] and any(e["k"] != "deref" for e in cur["place"]["proj"]):
                break
            df = fn.defs.get(cur["place"]["local"], ())
            if len(df) != 1:
                break
            kind, bb, idx, place, payload = df[0]
            if kind == "assign" and payload["k"] == "ref" and not payload["place"]["proj"]:
                cur = {"k": "copy", "place": payload["place"]}
                continue
            if kind == "assign" and payload["k"] == "use":
                cur = payload["op"]
                continue
            if kind == "call" and payload.name in ("to_string", "human_readable") and payload.args:
                src = payload.args[0]
                if src["k"] in ("copy", "move"):
                    ty = fn.local_ty(src["place"]["local"])["s"]
                break
            break
    return ("arg", src, "new_display", ty)


def format_of_operand(fn, op, depth=0):
    """If the operand is a String built by format!(..) or by `+` concatenation
    (`a.clone() + "/" + &b.to_string()`), its pieces; else None."""
    org = fn.origins_of_operand(op)
    if len(org) != 1:
        return None
    o = next(iter(org))
    if o[0][0] == "call" and o[0][3] == "std::fmt::format" and len(o) == 1:
        return format_of_call(fn, fn.call_at[o[0][2]])
    if o[0][0] == "call" and o[0][3] in ("std::string::String::with_capacity", "std::string::String::new") and len(o) == 1:
        # a String filled piece by piece: `let mut p = String::with_capacity(n); p.push_str(a); p.push('/'); p.push_str(b)`
        pushes = [c for c in fn.calls if c.path in ("std::string::String::push_str", "std::string::String::push") and c.args
                  and fn.origins_of_operand(c.args[0]) == org]
        if not pushes or any(fn.on_cycle(c.bb) for c in pushes):
            return None
        order = sorted(pushes, key=lambda c: len([d for d in pushes if d is not c and fn.dominated_by_blocks(c.bb, [d.bb])]))
        for a, b in zip(order, order[1:]):
            if not fn.dominated_by_blocks(b.bb, [a.bb]):
                return None
        out = []
        for c in order:
            a = c.args[1]
            if c.name == "push":
                if a["k"] == "const" and a.get("bits") is not None:
                    out.append(("lit", chr(int(a["bits"])).encode()))
                else:
                    return None
                continue
            b = _const_bytes_of(fn, a)
            if b is not None:
                out.append(("lit", b))
            else:
                # the String a `human_readable()` / `to_string()` call returned is shown as it is
                cur = a
                for _ in range(4):
                    df = fn.defs.get(cur["place"]["local"], ()) if cur["k"] in ("copy", "move") and not cur["place"]["proj"] else ()
                    if len(df) == 1 and df[0][0] == "assign" and df[0][4]["k"] == "ref" and not df[0][4]["place"]["proj"]:
                        cur = {"k": "copy", "place": df[0][4]["place"]}
                    elif len(df) == 1 and df[0][0] == "assign" and df[0][4]["k"] == "use":
                        cur = df[0][4]["op"]
                    elif len(df) == 1 and df[0][0] == "call" and df[0][4].path in ("std::ops::Deref::deref", "std::string::String::as_str") and df[0][4].args:
                        cur = df[0][4].args[0]
                    else:
                        break
                ty = fn.local_ty(cur["place"]["local"])["s"] if cur["k"] in ("copy", "move") else ""
                out.append(("arg", cur, "new_display", ty.lstrip("&")))
        merged = []
        for pc in out:
            if pc[0] == "lit" and merged and merged[-1][0] == "lit":
                merged[-1] = ("lit", merged[-1][1] + pc[1])
            else:
                merged.append(pc)
        return merged
    if o[0][0] == "call" and o[0][3] == "std::ops::Add::add" and len(o) == 1 and depth < 8:
        c = fn.call_at[o[0][2]]
        if c.self_ty and "String" in c.self_ty and len(c.args) == 2:
            out = []
            for a in c.args:
                b = _const_bytes_of(fn, a)
                if b is not None:
                    out.append(("lit", b))
                    continue
                # a named variable is a piece of its own (`path.clone() + ".tmp"` is a neighbour
                # of `path`, whatever `path` was built from)
                v = fn.vars_of_operand(a)
                named = len(v) == 1 and next(iter(v))[0][0] == "var"
                sub = None if named else format_of_operand(fn, a, depth + 1)
                if sub is not None:
                    out += sub
                else:
                    out.append(_display_piece(fn, a))
            # adjacent literals merge (format! has one literal between two arguments)
            merged = []
            for p in out:
                if p[0] == "lit" and merged and merged[-1][0] == "lit":
                    merged[-1] = ("lit", merged[-1][1] + p[1])
                else:
                    merged.append(p)
            return merged
    return None


def shape(fn, pieces):
    """Comparable shape of a format: literals and, per argument, (display type, origin set)."""
    out = []
    for p in pieces:
        if p[0] == "lit":
            out.append(("lit", p[1]))
        else:
            out.append(("arg", p[3], frozenset(fn.origins_of_operand(p[1]))))
    return out
