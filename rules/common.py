"""Helpers shared by rule modules: effect summaries (A5), promoted constants, roles of
blob/work functions."""
from lib.mir import AnalysisError, erase_generics
from roles import SYS, SYSTEM_MUTATORS, SYSTEM_OBSERVERS, sys_calls

_eff_cache = {}


def effects(P, fid):
    """System trait methods a local function may reach: {method name: first CallSite}."""
    key = (id(P), fid)
    if key in _eff_cache:
        return _eff_cache[key]
    out = {}
    for f in P.reachable_fns([fid]):
        for c in sys_calls(P.fns[f]):
            out.setdefault(c.name, c)
    _eff_cache[key] = out
    return out


def call_effects(P, cs):
    """Effects of one call site (direct System call or through local callees)."""
    out = {}
    if cs.trait == SYS:
        out[cs.name] = cs
    for t in P.local_targets(cs):
        for k, v in effects(P, t).items():
            out.setdefault(k, v)
    return out


def mutating(effs):
    return {k: v for k, v in effs.items() if k in SYSTEM_MUTATORS}


def promoted_value(fn, op):
    """Describe a promoted constant operand: ('Some', bits) | ('None',) | ('scalar', bits) | None."""
    if op["k"] != "const":
        return None
    if "promoted" in op:
        pid = "%s::promoted[%d]" % (fn.id if fn.kind != "promoted" else fn.body.get("of"), op["promoted"])
        pf = fn.prog.fns.get(pid)
        if op.get("item"):
            # (the promoted belongs to the item the code came from - a closure or helper inlined here)
            alt = fn.prog.fns.get("%s::promoted[%d]" % (op["item"], op["promoted"]))
            if alt is not None and alt.kind == "promoted":
                pf = alt
        if op.get("text") in fn.prog.fns and fn.prog.fns[op["text"]].kind == "promoted":
            pf = fn.prog.fns[op["text"]]      # (code inlined from a helper or closure keeps its own promoteds)
        if pf is None:
            return None
        org = pf.origins_of_place({"local": 0, "proj": []})
        if len(org) != 1:
            return None
        o = next(iter(org))
        if o[0][0] == "agg":
            rv = pf.blocks[o[0][2]]["stmts"][o[0][3]]["rv"]
            kk = rv["kind"]
            if kk["k"] == "adt" and kk["adt"] == "std::option::Option":
                if kk["variant"] == "Some" and rv["ops"][0]["k"] == "const":
                    return ("Some", rv["ops"][0].get("bits"))
                if kk["variant"] == "None":
                    return ("None",)
        if o[0][0] == "const":
            return ("text", o[0][1])
        return None
    if "bits" in op:
        return ("scalar", op["bits"])
    return ("text", op.get("text"))


def const_bytes(fn, op):
    """Bytes of a &str / byte-string constant operand, looking through promoteds."""
    if op["k"] != "const":
        return None
    if "bytes" in op:
        return bytes(op["bytes"])
    return None


def str_const_of_operand(fn, op):
    """If the operand is (a borrow of) a string literal, its bytes."""
    if op["k"] == "const":
        return const_bytes(fn, op)
    for o in fn.origins_of_operand(op):
        pass
    # look for the defining constant
    if op["k"] in ("copy", "move") and not op["place"]["proj"]:
        for (kind, bb, idx, place, payload) in fn.defs.get(op["place"]["local"], ()):
            if kind == "assign" and payload["k"] == "use" and payload["op"]["k"] == "const":
                return const_bytes(fn, payload["op"])
            if kind == "assign" and payload["k"] in ("use", "ref"):
                inner = payload.get("op") or {"k": "copy", "place": payload["place"]}
                if inner["k"] in ("copy", "move"):
                    return str_const_of_operand(fn, inner)
    return None


def ty_of_operand(fn, op):
    if op["k"] in ("copy", "move"):
        t = fn.local_ty(op["place"]["local"])["s"]
        if op["place"]["proj"]:
            last = [e for e in op["place"]["proj"] if e["k"] == "field"]
            if last:
                return last[-1]["ty"]
        return t
    return op.get("ty", {}).get("s", "")


class WorkRoles:
    """Roles in blob.rs / work.rs / cache.rs found by what the functions do."""

    def __init__(self, P):
        self.P = P

    def prod_fns(self):
        return [f for f in self.P.fns.values() if not f.body.get("in_test") and f.kind != "promoted"]

    def hash_fns(self):
        """Functions (system, path, assumed FileState) -> Result<Option<Ticket>, _>: the file-hash
        function with the mtime shortcut."""
        out = []
        for f in self.prod_fns():
            if f.kind != "fn" and f.kind != "assoc_fn":
                continue
            outp = f.body.get("output", {}).get("s", "")
            ins = [t["s"] for t in f.body.get("inputs", [])]
            if outp.startswith("std::result::Result<std::option::Option<ticket::Ticket>") and any("blob::FileState" in t for t in ins):
                out.append(f)
        return out

    def shortcut_fns(self):
        """Functions that compare a file's timestamp with FileState.timestamp."""
        out = []
        for f in self.prod_fns():
            if f.body.get("derived"):
                continue
            if self.timestamp_eq_edges(f, True) or self.timestamp_cmp_any(f):
                out.append(f)
        return out

    _SOME = (("variant", "Some"), ("field", 0))

    def _is_ts(self, f, op):
        """The remembered timestamp (param .. .timestamp), bare or wrapped in `Some(..)`
        (`modified(path) == Some(state.timestamp)`)."""
        org = f.origins_of_operand(op)
        if org and all(o[0][0] == "param" and o[-1] == ("field", "timestamp") for o in org):
            return True
        org = f._op_origins(op, self._SOME, frozenset())
        return bool(org) and all(o[0][0] == "param" and o[-1] == ("field", "timestamp") for o in org)

    def ts_other_origins(self, f, d):
        """For a comparison with the remembered timestamp on one side: origins of the other
        side (unwrapped if the comparison is between Options)."""
        ts, other = (d["a"], d["b"]) if self._is_ts(f, d["a"]) else (d["b"], d["a"])
        direct = f.origins_of_operand(ts)
        wrapped = not (direct and all(o[0][0] == "param" and o[-1] == ("field", "timestamp") for o in direct))
        return f._op_origins(other, self._SOME if wrapped else (), frozenset())

    def timestamp_cmp_any(self, f):
        for bb in f.live:
            info = f.switch_info(bb)
            if not info:
                continue
            d = f.cmp_desc(info)
            if d and (self._is_ts(f, d["a"]) or self._is_ts(f, d["b"])):
                return True
        return False

    def timestamp_eq_edges(self, f, truth):
        def is_eq(desc, want):
            return desc["op"] == want and (self._is_ts(f, desc["a"]) != self._is_ts(f, desc["b"]))
        return f.cmp_edges(lambda d: is_eq(d, "Eq"), truth) | f.cmp_edges(lambda d: is_eq(d, "Ne"), not truth)

    def resolve_single(self):
        c = [f for f in self.prod_fns() if f.constructs("blob::FileResolution", "AlreadyCorrect")]
        return c

    def rebuild_fns(self):
        """Non-entry functions that call System::execute_command (the rebuild function)."""
        return [f for f in self.prod_fns() if sys_calls(f, "execute_command") and
                not (f.body.get("impl_trait") == SYS)]

    def backup_with_ticket(self):
        return "cache::SysCache::<SystemType>::back_up_file_with_ticket"

    def restore_local(self):
        return "cache::SysCache::<SystemType>::restore_file"

    def restore_download(self):
        return "cache::DownloaderCache::restore_file"


def remembered_entry_call(P, o):
    """If origin `o` is rooted in `remembered.get_info(i)` or, with the accessor written out,
    in `remembered.infos[i]`: (Fn, CallSite, vector operand, index operand); else None."""
    if not o or o[0][0] != "call":
        return None
    fn = P.fns.get(o[0][1])
    if fn is None:
        return None
    c = fn.call_at.get(o[0][2])
    if c is None:
        return None
    if c.path == "blob::FileStateVec::get_info" and len(c.args) == 2:
        return fn, c, c.args[0], c.args[1]
    if "Index" in c.path and c.name in ("index", "index_mut") and len(c.args) == 2:
        vo = fn.origins_of_operand(c.args[0])
        if vo and all(x[-1] == ("field", "infos") for x in vo) and fn.local_ty(c.args[1]["place"]["local"])["s"] == "usize" if c.args[1]["k"] in ("copy", "move") else False:
            return fn, c, c.args[0], c.args[1]
    return None
