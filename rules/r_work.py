"""Rules about the up-to-date decision, the rebuild path and what gets recorded
(work.rs, blob.rs, history.rs): C01.R1 R3-R6 R9, C02.R1-R4 R6, C04.R1 R6, C17.R1-R3,
C18.R1, C20.R2."""
from engine import rule
from roles import Roles, SYS, sys_calls, SYSTEM_MUTATORS
from common import WorkRoles, effects, call_effects, mutating, promoted_value, remembered_entry_call
from lib.mir import AnalysisError, fmt_origin

HIST_GET = "history::RuleHistory::get_file_state_vec"
HIST_INSERT = "history::RuleHistory::insert"
DL_GET = "history::DownloaderRuleHistory::get_file_state_vec"


def is_call(o, path=None):
    return o[0][0] == "call" and (path is None or o[0][3] == path)


def handler_fn(ctx):
    """The rule-node handler: the local function the node closure calls that can reach
    execute_command."""
    R = Roles(ctx.P)
    leaf, node = R.build_closures()
    hs = [c for c in R.handler_calls(node) if any(R.reaches_exec(t) for t in ctx.P.local_targets(c))]
    ctx.need(len(hs) == 1, "one handler call in the node closure")
    return ctx.P.fns[ctx.P.local_targets(hs[0])[0]], hs[0], node


@rule("C04.R1", floor=1)
def c04_r1(ctx):
    """Exit status: in the function folding Vec<Result<CommandLineOutput,_>> into a Result,
    every Ok(output) is built under the edge `output.code == Some(0)`, an Err element
    returns Err, and with no element the result is the initial Err."""
    fns = [f for f in WorkRoles(ctx.P).prod_fns()
           if f.kind == "fn" and any("Vec<std::result::Result<system::CommandLineOutput" in t["s"] for t in f.body.get("inputs", []))
           and "Result<system::CommandLineOutput, work::WorkError>" in f.body.get("output", {}).get("s", "")]
    ctx.need(len(fns) == 1, "the function folding command results into one Result")
    f = fns[0]
    ctx.saw(f)
    lps = f.loops()
    ctx.need(len(lps) == 1, "one loop over the command results")
    lp = lps[0]
    if not all(o[0][0] == "param" and all(st[0] in ("iter", "adapt") for st in o[1:]) for o in lp["iter"]):
        ctx.viol((f.id, "status-loop-collection"), "the status loop does not traverse every command result", f.where(lp["header"]))
    elem_ok = {e + (("variant", "Ok"), ("field", 0)) for e in lp["elem"]}

    def is_code_test(desc):
        for x, y in ((desc["a"], desc["b"]), (desc["b"], desc["a"])):
            xo = f.origins_of_operand(x)
            if xo == {e + (("field", "code"),) for e in elem_ok}:
                yv = None
                for o in f.origins_of_operand(y):
                    pass
                # y is a reference to a promoted Some(0)
                yv = _promoted_through(f, y)
                if yv == ("Some", "0"):
                    return True
        return False
    good_edges = f.cmp_edges(lambda d: d["op"] == "Eq" and is_code_test(d), True) | \
        f.cmp_edges(lambda d: d["op"] == "Ne" and is_code_test(d), False)
    bad_edges = f.cmp_edges(lambda d: d["op"] == "Eq" and is_code_test(d), False) | \
        f.cmp_edges(lambda d: d["op"] == "Ne" and is_code_test(d), True)
    # Every iteration whose element is an output tests that output's status before it goes on
    # to the next element, leaves the loop or returns: whatever carries the output to the
    # result (`Ok(output)` itself, an Option accumulator and `ok_or`, a fold), no element gets
    # past its own iteration untested.
    okel = f.edges_of_value_variant(lp["elem"], "Ok")
    if not okel:
        raise AnalysisError("idiom not recognised: %s does not distinguish an output from a failure to start (no Ok / Err test of the element)" % f.id)
    ctx.inst("status test of each element", f.where(lp["header"]))
    r = f.reach([x for (_, x) in okel], avoid_edges=good_edges | bad_edges)
    outside = [x for x in r if x not in lp["body"] and not f.blocks[x]["cleanup"]]
    if lp["header"] in r or outside:
        ctx.viol((f.id, "ok-without-status-check"), "a command's output is accepted as success without the test `code == Some(0)`",
                 f.where(min(x for (_, x) in okel)))
    else:
        ctx.ok()
    # what is returned as success is an element's output
    ret = f._origins(0, (("variant", "Ok"), ("field", 0)), frozenset())
    ctx.inst("Ok payload of the result", f.where(0))
    if not ret or not ret <= elem_ok:
        ctx.viol((f.id, "ok-foreign-output"), "Ok is built from something other than this iteration's output", f.where(0))
    else:
        ctx.ok()
    # an Err element returns Err at once
    el = lp["elem"]
    err_edges = f.edges_of_value_variant(el, "Err")
    if not err_edges:
        ctx.viol((f.id, "err-element-ignored"), "a command that failed to start is not examined", f.where(lp["header"]))
    else:
        r = f.reach([x for (_, x) in err_edges])
        if lp["header"] in r:
            ctx.viol((f.id, "err-element-continues"), "a command that failed to start does not abort the rule", f.where(lp["header"]))
    # the failing-status edge returns Err
    r = f.reach([x for (_, x) in bad_edges])
    if lp["header"] in r:
        ctx.viol((f.id, "bad-status-continues"), "a non-zero exit status does not abort the rule", f.where(lp["header"]))
    # initial value is Err: every whole assignment to the returned variable outside the loop is an Err aggregate
    ret_vars = f.vars_of_place({"local": 0, "proj": []})
    for o in ret_vars:
        if o[0][0] == "var":
            for (kind, bb, idx, place, payload) in f.defs.get(o[0][1], ()):
                if bb not in lp["body"] and kind == "assign":
                    org = f._rv_origins(payload, (), bb, idx, frozenset())
                    if not all(x[0][0] == "agg" and x[0][4].endswith("Result::Err") for x in org):
                        ctx.viol((f.id, "initial-not-err"), "with no command line the result is not an error", f.where(bb, idx))


def _promoted_through(f, op):
    """Value of a promoted constant reached through borrows/copies."""
    seen = set()
    work = [op]
    while work:
        o = work.pop()
        if o["k"] == "const":
            return promoted_value(f, o)
        l = o["place"]["local"]
        if l in seen:
            continue
        seen.add(l)
        for (kind, bb, idx, place, payload) in f.defs.get(l, ()):
            if kind == "assign":
                if payload["k"] == "use":
                    work.append(payload["op"])
                elif payload["k"] == "ref":
                    work.append({"k": "copy", "place": payload["place"]})
    return None


@rule("C01.R5", floor=2)
def c01_r5(ctx):
    """The command is skipped only when nothing needs rebuilding: WorkOption::Resolutions is
    built only on the false edge of the needs-rebuild predicate applied to the resolutions
    of this very rule, and that predicate returns true iff some element is NeedsRebuild."""
    h, hcall, node = handler_fn(ctx)
    ctx.saw(h)
    preds = _needs_rebuild_calls(ctx, h)
    inline = None
    if not preds:
        inline = _inline_rebuild_verdict(ctx, h)
    ctx.need(preds or inline, "a call of a bool predicate over Vec<FileResolution> in the handler")
    false_edges = set()
    for p in preds:
        false_edges |= h.bool_edges_of_call(p, False)
    if inline:
        false_edges = inline["false"]
    sites = h.constructs("work::WorkOption", "Resolutions")
    ctx.need(sites, "a WorkOption::Resolutions construction")
    for (bb, idx, rv, pl) in sites:
        ctx.inst("Resolutions", h.where(bb, idx))
        if not h.dominated_by_edges(bb, false_edges):
            ctx.viol((h.id, "skip-without-verdict"), "the command is skipped on a path that did not establish that no target needs rebuilding", h.where(bb, idx))
        elif (not inline and h.vars_of_operand(rv["ops"][0]) != h.vars_of_operand(preds[0].args[0])) or \
                (inline and h.origins_of_operand(rv["ops"][0]) != inline["vector"]):
            ctx.viol((h.id, "verdict-on-other-vector"), "the resolutions reported are not the ones that were tested", h.where(bb, idx))
        else:
            ctx.ok()
    # predicate summary
    for p in preds:
        pf = ctx.P.fns[ctx.P.local_targets(p)[0]]
        ctx.saw(pf)
        ctx.inst("needs-rebuild predicate", pf.where(0))
        _check_any_needs_rebuild(ctx, pf)
    # the vector tested is the result of the resolution step
    for p in preds:
        org = h.origins_of_operand(p.args[0])
        if not all(is_call(o) and o[1:] == (("variant", "Ok"), ("field", 0)) for o in org):
            ctx.viol((h.id, "verdict-source"), "the resolutions tested are not the Ok payload of the resolution step", p.where)


def _inline_rebuild_verdict(ctx, h):
    """The needs-rebuild predicate written out in the handler itself (`resolutions.iter().any(..)`,
    a loop setting a flag, a local closure): the one loop over the Ok payload of a call that
    tests its element for NeedsRebuild.  The verdict `true` is the NeedsRebuild edge, `false`
    the loop's exhaustion - provided a NeedsRebuild element never goes on to the next one."""
    cands = []
    for lp in h.loops():
        it = lp["iter"]
        if not it or not all(is_call(o) and o[1:3] == (("variant", "Ok"), ("field", 0)) for o in it):
            continue
        nr = h.edges_variant(lambda info, nm, oth, rest: info["origins"] == lp["elem"] and (nm == "NeedsRebuild" or (oth and rest == ["NeedsRebuild"])))
        if nr:
            cands.append((lp, nr))
    if len(cands) != 1:
        return None
    lp, nr = cands[0]
    ctx.inst("needs-rebuild test written out in the handler", h.where(lp["header"]))
    if any(st[0] not in ("iter", "adapt") for o in lp["iter"] for st in o[3:]):
        ctx.viol((h.id, "pred-collection"), "the predicate does not look at every resolution", h.where(lp["header"]))
    if lp["header"] in h.reach([x for (_, x) in nr]):
        ctx.viol((h.id, "pred-needs-rebuild-ignored"), "a NeedsRebuild element does not make the predicate true", h.where(lp["header"]))
    # no other way out of the loop than `found` and `exhausted`
    exits = {(a, b) for a in lp["body"] for b in h.succ[a] if b not in lp["body"] and not h.blocks[b]["cleanup"]}
    return {"true": set(nr), "false": {lp["none"]}, "vector": {o[:3] for o in lp["iter"]}, "loop": lp}


def _needs_rebuild_calls(ctx, h):
    out = []
    for c in h.calls:
        tg = ctx.P.local_targets(c)
        if not tg:
            continue
        f = ctx.P.fns[tg[0]]
        if f.body.get("output", {}).get("s") == "bool" and any("Vec<blob::FileResolution>" in t["s"] or "[blob::FileResolution]" in t["s"] for t in f.body.get("inputs", [])):
            out.append(c)
    return out


def _check_any_closure(ctx, pf):
    """`resolutions.iter().any(|r| matches!(r, NeedsRebuild))` - the iterator form."""
    anys = [c for c in pf.calls if c.path == "std::iter::Iterator::any"]
    if len(anys) != 1 or pf.origins_of_place({"local": 0, "proj": []}) != pf._call_origins(anys[0], (), frozenset()):
        return False
    a = anys[0]
    src = pf.origins_of_operand(a.args[0])
    if not (src and all(o[0][0] == "param" and all(st[0] in ("iter", "adapt") for st in o[1:]) for o in src)):
        ctx.viol((pf.id, "pred-collection"), "the predicate does not look at every resolution", a.where)
        return True
    cl = None
    for o in pf.origins_of_operand(a.args[1]):
        if o[0][0] == "agg" and o[0][4] == "closure":
            cl = ctx.P.fns[pf.blocks[o[0][2]]["stmts"][o[0][3]]["rv"]["kind"]["body"]]
    if cl is None:
        return False
    elem = {(("param", 2),)}
    nr_edges = cl.edges_variant(lambda info, nm, oth, rest: info["origins"] == elem and (nm == "NeedsRebuild" or (oth and rest == ["NeedsRebuild"])))
    if not nr_edges:
        ctx.viol((cl.id, "pred-no-test"), "the predicate never tests for NeedsRebuild", cl.where(0))
        return True
    for (kind, bb, idx, place, payload) in cl.defs.get(0, ()):
        if kind != "assign" or payload["k"] != "use" or payload["op"]["k"] != "const":
            raise AnalysisError("idiom not recognised: non-constant result in %s" % cl.id)
        val = payload["op"].get("bits") == "1"
        if val and not cl.dominated_by_edges(bb, nr_edges):
            ctx.viol((cl.id, "pred-true-unguarded"), "returns true without having seen NeedsRebuild", cl.where(bb, idx))
        if not val and bb in cl.reach([x for (_, x) in nr_edges]):
            ctx.viol((cl.id, "pred-needs-rebuild-false"), "a NeedsRebuild element can yield false", cl.where(bb, idx))
    ctx.ok()
    return True


def _check_extreme(ctx, pf):
    """`resolutions.iter().max() == Some(&NeedsRebuild)` over a derived ordering of the variants:
    "some element is NeedsRebuild" iff the extreme taken is the one NeedsRebuild is."""
    ext = [c for c in pf.calls if c.path in ("std::iter::Iterator::max", "std::iter::Iterator::min")]
    if len(ext) != 1 or pf.loops():
        return False
    c = ext[0]
    src = pf.origins_of_operand(c.args[0])
    if not (src and all(o[0][0] == "param" and all(st[0] in ("iter", "adapt") for st in o[1:]) for o in src)):
        ctx.viol((pf.id, "pred-collection"), "the predicate does not look at every resolution", c.where)
        return True
    a = ctx.P.facts.adts.get("blob::FileResolution")
    ords = [i for i in ctx.P.facts.impls if i["self_ty"]["s"] == "blob::FileResolution" and i["trait"] in ("std::cmp::Ord", "std::cmp::PartialOrd")]
    if a is None or not ords or not all(i["derived"] for i in ords):
        raise AnalysisError("idiom not recognised: %s orders resolutions by a hand-written comparison" % pf.id)
    names = [v["name"] for v in a["variants"]]
    named = set()
    for g in ctx.P.fns.values():
        if g.kind == "promoted" and g.body.get("of") == pf.id:
            for b in g.blocks:
                for st in b["stmts"]:
                    if st["k"] == "assign" and st["rv"]["k"] == "aggregate" and st["rv"]["kind"].get("adt") == "blob::FileResolution":
                        named.add(st["rv"]["kind"]["variant"])
    if named != {"NeedsRebuild"}:
        raise AnalysisError("idiom not recognised: %s compares the extreme resolution with %s" % (pf.id, sorted(named)))
    want = "max" if names.index("NeedsRebuild") == len(names) - 1 else ("min" if names.index("NeedsRebuild") == 0 else None)
    if want is None or c.name != want:
        ctx.viol((pf.id, "pred-wrong-extreme"), "the predicate takes the `%s` of the resolutions (NeedsRebuild is variant %d of %d in the derived order): it is true only when *every* target needs rebuilding, so a rule with one lost and one intact target never runs its command again" % (c.name, names.index("NeedsRebuild") + 1, len(names)), c.where)
    else:
        ctx.ok()
    return True


def _check_any_needs_rebuild(ctx, pf):
    lps = pf.loops()
    if len(lps) == 0 and _check_any_closure(ctx, pf):
        return
    if len(lps) == 0 and _check_extreme(ctx, pf):
        return
    if len(lps) != 1:
        raise AnalysisError("idiom not recognised: the needs-rebuild predicate %s is neither a single loop nor iter().any(..)" % pf.id)
    lp = lps[0]
    if not all(o[0][0] == "param" and all(st[0] in ("iter", "adapt") for st in o[1:]) for o in lp["iter"]):
        ctx.viol((pf.id, "pred-collection"), "the predicate does not look at every resolution", pf.where(lp["header"]))
    nr_edges = pf.edges_variant(lambda info, nm, oth, rest: info["origins"] == lp["elem"] and (nm == "NeedsRebuild" or (oth and rest == ["NeedsRebuild"])))
    other_edges = pf.edges_variant(lambda info, nm, oth, rest: info["origins"] == lp["elem"] and ((nm is not None and nm != "NeedsRebuild") or (oth and "NeedsRebuild" not in (rest or []))))
    if not nr_edges:
        ctx.viol((pf.id, "pred-no-test"), "the predicate never tests for NeedsRebuild", pf.where(lp["header"]))
        return
    for (kind, bb, idx, place, payload) in pf.defs.get(0, ()):
        if kind != "assign" or payload["k"] != "use" or payload["op"]["k"] != "const":
            ctx.viol((pf.id, "pred-nonconst"), "predicate result is not a constant per path", pf.where(bb, idx))
            continue
        val = payload["op"].get("bits") == "1"
        if val and not pf.dominated_by_edges(bb, nr_edges):
            ctx.viol((pf.id, "pred-true-unguarded"), "returns true without having seen NeedsRebuild", pf.where(bb, idx))
        if not val and not pf.dominated_by_edges(bb, {lp["none"]}):
            ctx.viol((pf.id, "pred-false-early"), "returns false before every resolution was examined", pf.where(bb, idx))
    # the NeedsRebuild edge must lead to `true`: cannot return to the header
    r = pf.reach([x for (_, x) in nr_edges])
    if lp["header"] in r:
        ctx.viol((pf.id, "pred-needs-rebuild-ignored"), "a NeedsRebuild element does not make the predicate true", pf.where(lp["header"]))
    trues = [bb for (kind, bb, idx, place, payload) in pf.defs.get(0, ()) if kind == "assign" and payload["k"] == "use" and payload["op"].get("bits") == "1"]
    r2 = pf.reach([x for (_, x) in nr_edges], avoid_blocks=trues)
    if any(b in r2 for b in pf.return_blocks):
        ctx.viol((pf.id, "pred-needs-rebuild-false"), "a NeedsRebuild element can yield false", pf.where(lp["header"]))
    ctx.ok()


@rule("C02.R3", floor=1)
def c02_r3(ctx):
    """The rebuild function (the only one that executes the command) is called only on the
    true edge of the needs-rebuild predicate."""
    h, hcall, node = handler_fn(ctx)
    preds = _needs_rebuild_calls(ctx, h)
    inline = _inline_rebuild_verdict(ctx, h) if not preds else None
    ctx.need(preds or inline, "needs-rebuild predicate call")
    true_edges = set()
    for p in preds:
        true_edges |= h.bool_edges_of_call(p, True)
    if inline:
        true_edges = inline["true"]
    R = Roles(ctx.P)
    rb = [c for c in h.calls if any(R.reaches_exec(t) for t in ctx.P.local_targets(c))] + R.exec_calls(h)
    ctx.need(rb, "a call that reaches execute_command in the handler")
    for c in rb:
        ctx.inst("rebuild call", c.where)
        if h.dominated_by_edges(c.bb, true_edges):
            ctx.ok()
        else:
            ctx.viol((h.id, "rebuild-unconditional"), "the command can run although no target needs rebuilding", c.where)


@rule("C02.R1", floor=1)
def c02_r1(ctx):
    """At most one execution per rule per build: from a rule thread, execute_command is
    reached through a call chain none of whose sites lies on a CFG cycle, and no two sites
    of the chain are ordered on one path; one thread closure per element of the node list."""
    R = Roles(ctx.P)
    leaf, node = R.build_closures()
    b = R.entry("build")
    # chain: node closure -> ... -> execute_command
    def walk(fn, depth, chain):
        sites = []
        for c in fn.calls:
            if c.trait == SYS and c.name == "execute_command":
                sites.append((c, chain + [c]))
            else:
                for t in ctx.P.local_targets(c):
                    if R.reaches_exec(t) and depth < 8:
                        sites.append((c, chain + [c]))
        return sites
    frontier = [(node, [])]
    seen = set()
    n_sites = 0
    while frontier:
        fn, chain = frontier.pop()
        if fn.id in seen:
            continue
        seen.add(fn.id)
        ctx.saw(fn)
        sites = walk(fn, len(chain), chain)
        for (c, ch) in sites:
            n_sites += 1
            if fn.on_cycle(c.bb):
                ctx.viol((fn.id, "exec-in-loop", c.path), "the command (or a call leading to it) sits in a loop: it can run more than once per build", c.where)
        for i, (c1, _) in enumerate(sites):
            for (c2, _) in sites[i + 1:]:
                if c2.bb in fn.reach_after(c1.bb) or c1.bb in fn.reach_after(c2.bb):
                    ctx.viol((fn.id, "exec-twice", c1.path, c2.path), "two calls that can each run the command lie on one path", c2.where)
        for (c, ch) in sites:
            for t in ctx.P.local_targets(c):
                frontier.append((ctx.P.fns[t], ch))
    ctx.inst("execute_command chain sites=%d" % n_sites)
    if n_sites:
        ctx.ok()
    # exactly one spawn of the node closure per iteration of the node loop
    sp = [cs for (pf, cs, cl) in R.spawns() if cl is node]
    lps = [lp for lp in b.loops() if sp[0].bb in lp["body"]]
    if len(sp) != 1 or len(lps) != 1:
        ctx.viol((b.id, "node-spawn-shape"), "the node closure is not spawned exactly once per plan element", sp[0].where)
    else:
        inner = [lp for lp in b.loops() if lp["header"] != lps[0]["header"] and lp["header"] in lps[0]["body"] and sp[0].bb in lp["body"]]
        if inner:
            ctx.viol((b.id, "node-spawn-nested"), "the node closure is spawned in a nested loop", sp[0].where)


@rule("C01.R4", floor=1)
def c01_r4(ctx):
    """AlreadyCorrect needs equality: every construction of FileResolution::AlreadyCorrect is
    dominated by the true edge of a Ticket equality between the remembered ticket (a
    FileState parameter's .ticket) and the current ticket (the Ok(Some(_)) payload of the
    file-hash function called on the same FileInfo's path); Ticket's PartialEq is derived."""
    W = WorkRoles(ctx.P)
    fns = W.resolve_single()
    ctx.need(fns, "a function constructing FileResolution::AlreadyCorrect")
    hashers = {f.id for f in W.hash_fns()}
    ctx.need(hashers, "the file-hash function")
    for f in fns:
        ctx.saw(f)
        for (bb, idx, rv, pl) in f.constructs("blob::FileResolution", "AlreadyCorrect"):
            ctx.inst("AlreadyCorrect", f.where(bb, idx))

            def is_ticket_eq(desc):
                if desc["op"] not in ("Eq", "Ne") or "call" not in desc:
                    return False
                if desc["call"].self_ty != "ticket::Ticket":
                    return False
                for x, y in ((desc["a"], desc["b"]), (desc["b"], desc["a"])):
                    xo = f.origins_of_operand(x)
                    yo = f.origins_of_operand(y)
                    rem = xo and all(o[0][0] == "param" and o[-1] == ("field", "ticket") and
                                     "blob::FileState" in f.local_ty(o[0][1])["s"] for o in xo)
                    cur = yo and all(is_call(o) and o[0][3].split("::<")[0] in {h.split("::<")[0] for h in hashers} | hashers
                                     and o[1:] == (("variant", "Ok"), ("field", 0), ("variant", "Some"), ("field", 0)) for o in yo)
                    if rem and cur:
                        # the hash call is on this FileInfo's own path and state
                        for o in yo:
                            hc = f.call_at[o[0][2]]
                            po = f.origins_of_operand(hc.args[1])
                            so = f.origins_of_operand(hc.args[2])
                            if not (po and so and all(p[-1] == ("field", "path") for p in po) and
                                    {p[:-1] for p in po} == {s[:-1] for s in so} and all(s[-1] == ("field", "file_state") for s in so)):
                                return False
                        return True
                return False
            edges = f.cmp_edges(lambda d: d["op"] == "Eq" and is_ticket_eq(d), True) | \
                f.cmp_edges(lambda d: d["op"] == "Ne" and is_ticket_eq(d), False)
            if f.dominated_by_edges(bb, edges):
                ctx.ok()
            else:
                ctx.viol((f.id, "already-correct-without-compare"), "a target is declared up to date without comparing its current hash with the remembered one", f.where(bb, idx))
    # who else may say AlreadyCorrect
    eq = [i for i in ctx.P.facts.impls if i["self_ty"]["s"] == "ticket::Ticket" and i["trait"] == "std::cmp::PartialEq"]
    ctx.need(eq, "impl PartialEq for Ticket")
    if not all(i["derived"] for i in eq):
        ctx.viol(("ticket::Ticket", "partialeq-not-derived"), "Ticket equality is hand-written; it must compare all 32 bytes")
    t = ctx.P.facts.adts.get("ticket::Ticket")
    if t and [f["ty"]["s"] for f in t["variants"][0]["fields"]] != ["[u8; 32]"]:
        ctx.viol(("ticket::Ticket", "ticket-shape"), "Ticket is no longer exactly 32 hash bytes")


@rule("C02.R2", floor=1)
def c02_r2(ctx):
    """The Up-to-date path has no effect: on every path from the entry of the per-target
    resolution function to a return of AlreadyCorrect only observer System methods are
    reachable (no rename, create, chmod, execute)."""
    W = WorkRoles(ctx.P)
    for f in W.resolve_single():
        for (bb, idx, rv, pl) in f.constructs("blob::FileResolution", "AlreadyCorrect"):
            ctx.inst("AlreadyCorrect path", f.where(bb, idx))
            # blocks on some entry->site path, and on site->return paths
            fwd = f.reach([0])
            back = {b for b in fwd if bb in f.reach([b])}
            after = f.reach([bb])
            bad = None
            for b in sorted(back | after):
                if b in f.call_at:
                    if b == bb:
                        continue
                    m = mutating(call_effects(ctx.P, f.call_at[b]))
                    if m and (b in back and b != bb or b in after):
                        # a call in `back` only counts if it precedes the site on that path
                        bad = (f.call_at[b], sorted(m))
                        break
            if bad:
                ctx.viol((f.id, "up-to-date-has-effect", bad[0].path), "the path that reports Up-to-date can reach a mutating file-system operation (%s)" % ", ".join(bad[1]), bad[0].where)
            else:
                ctx.ok()


@rule("C02.R4", floor=2)
def c02_r4(ctx):
    """NeedsRebuild is a last resort when a remembered output exists: in the remembered path
    every construction of NeedsRebuild is dominated by the NotThere edge of the local-cache
    restore (and, where a downloader is configured, of the download)."""
    W = WorkRoles(ctx.P)
    fns = [f for f in W.prod_fns() if f.calls_to(W.restore_local())]
    ctx.need(fns, "a caller of SysCache::restore_file")
    # on the path that resolves against a remembered record, nobody else may say NeedsRebuild:
    # a verdict built in a function that never asks the cache skips the restore altogether
    rem = ctx.P.fns.get("blob::Blob::resolve_remembered_file_state_vec")
    if rem is not None:
        askers = {f.id for f in fns}
        for fid in sorted(ctx.P.reachable_fns([rem.id])):
            g = ctx.P.fns.get(fid)
            if g is None or g.body.get("in_test") or g.kind == "promoted" or fid in askers:
                continue
            for (bb, idx, rv, pl) in g.constructs("blob::FileResolution", "NeedsRebuild"):
                ctx.inst("NeedsRebuild in %s" % fid, g.where(bb, idx))
                ctx.viol((fid, "rebuild-without-trying-cache"), "NeedsRebuild is returned without having tried the local cache", g.where(bb, idx))
    for f in fns:
        ctx.saw(f)
        rc = f.calls_to(W.restore_local())
        nt = set()
        for c in rc:
            nt |= f.edges_of_call_variant(c, "NotThere")
        dl = f.calls_to(W.restore_download())
        for (bb, idx, rv, pl) in f.constructs("blob::FileResolution", "NeedsRebuild"):
            ctx.inst("NeedsRebuild in %s" % f.id, f.where(bb, idx))
            if not f.dominated_by_edges(bb, nt):
                ctx.viol((f.id, "rebuild-without-trying-cache"), "NeedsRebuild is returned without having tried the local cache", f.where(bb, idx))
                continue
            # if this site is reachable after a download attempt, it must be its NotThere edge
            for d in dl:
                if bb in f.reach_after(d.bb):
                    dnt = f.edges_of_call_variant(d, "NotThere")
                    if not f.dominated_by_edges(bb, dnt | {(a, b2) for (a, b2) in nt if False}):
                        # not dominated by download-NotThere: allowed only if the download was not attempted on that path
                        # (reachable from the download itself without its NotThere edge)
                        if bb in f.reach(list(f.succ[d.bb]), avoid_edges=dnt):
                            ctx.viol((f.id, "rebuild-despite-download"), "NeedsRebuild can be returned after a successful download", f.where(bb, idx))
            ctx.ok()
    # the restore's caller maps Done to Recovered (shared with C20.R2)


@rule("C01.R1", floor=3)
def c01_r1(ctx):
    """Lookup key: the key given to RuleHistory::get_file_state_vec / the downloader lookup
    and to RuleHistory::insert is the sources ticket returned (Ok) by the draining
    function, carried by RuleExt.sources_ticket."""
    R = Roles(ctx.P)
    leaf, node = R.build_closures()
    d = R.drain_fn()
    dcalls = [c for c in node.calls if d.id in ctx.P.local_targets(c)]
    ctx.need(len(dcalls) == 1, "drain call in node closure")
    want_root = node._call_origins(dcalls[0], (("variant", "Ok"), ("field", 0)), frozenset())
    want = {(node.id, o) for o in want_root}
    for path, argi in ((HIST_GET, 1), (DL_GET, 1), (HIST_INSERT, 1)):
        sites = [c for f in ctx.P.fns.values() if not f.body.get("in_test") and f.kind != "promoted" and f.id in R.production() for c in f.calls_to(path)]
        sites = [c for c in sites if not c.fn.id.startswith(R.entry("serve").id)]
        ctx.need(sites, "a call site of %s" % path)
        for c in sites:
            ctx.inst("%s key" % path.split("::")[-1], c.where)
            lifted = set()
            for o in c.fn.origins_of_operand(c.args[argi]):
                lifted |= ctx.P.lift(c.fn, o)
            if lifted == want:
                ctx.ok()
            else:
                ctx.viol((c.fn.id, "history-key", path.split("::")[-1]), "the history is looked up / recorded under a key that is not this rule's sources hash (key derives from %s)" % sorted(a + ":" + fmt_origin(o) for a, o in lifted), c.where)


@rule("C01.R3", floor=2)
def c01_r3(ctx):
    """The remembered vector used is the looked-up one, index-aligned: the FileStateVec given
    to per-target resolution is the lookup result, and target i is resolved against
    get_info(i) with i the enumerate index of the same traversal of the blob's infos."""
    W = WorkRoles(ctx.P)
    rs = W.resolve_single()
    ctx.need(len(rs) == 1, "the per-target resolution function")
    rsf = rs[0]
    callers = [c for c in ctx.P.callers.get(rsf.id, []) if not c.fn.body.get("in_test")]
    ctx.need(callers, "a caller of the per-target resolution function")
    for c in callers:
        f = c.fn
        ctx.saw(f)
        ctx.inst("per-target call", c.where)
        lps = [lp for lp in f.loops() if c.bb in lp["body"]]
        if len(lps) != 1:
            ctx.viol((f.id, "resolve-not-in-loop"), "per-target resolution is not called in a loop over the blob's infos", c.where)
            continue
        lp = lps[0]
        # iter: self.file_infos .iter() .enumerate()
        it_ok = all(o[0][0] == "param" and ("field", "file_infos") in o and o[-1] == ("adapt", "enumerate")
                    and all(st[0] in ("iter", "adapt", "field") for st in o[1:]) for o in lp["iter"])
        if not it_ok:
            ctx.viol((f.id, "resolve-loop-collection"), "the resolution loop is not `file_infos.iter().enumerate()` of the blob", f.where(lp["header"]))
            continue
        elem_i = {e + (("field", 0),) for e in lp["elem"]}
        elem_v = {e + (("field", 1),) for e in lp["elem"]}
        # argument 5 (target info) is this iteration's info; argument 4 is get_info(remembered, i)
        info_arg = c.args[-1]
        rem_arg = c.args[-2]
        if f.origins_of_operand(info_arg) != elem_v:
            ctx.viol((f.id, "resolve-info-arg"), "the FileInfo resolved is not this iteration's", c.where)
        gi = None
        gi_vec = gi_idx = None
        for o in f.origins_of_operand(rem_arg):
            re_ = remembered_entry_call(ctx.P, o) if len(o) == 1 else None
            if re_ is not None and re_[0] is f:
                gi, gi_vec, gi_idx = re_[1], re_[2], re_[3]
        if gi is None:
            ctx.viol((f.id, "resolve-remembered-arg"), "the remembered state is not FileStateVec::get_info(i)", c.where)
            continue
        if f.origins_of_operand(gi_idx) != elem_i:
            ctx.viol((f.id, "resolve-index"), "target i is compared with remembered entry j != i (index is %s)" % sorted(map(fmt_origin, f.origins_of_operand(gi_idx))), gi.where)
        vec = {tuple(st for st in o if st != ("field", "infos")) for o in f.origins_of_operand(gi_vec)}
        if not all(o[0][0] == "param" and len(o) == 1 for o in vec):
            ctx.viol((f.id, "resolve-vector"), "the remembered vector is not the function's parameter", gi.where)
            continue
        if not f.every_iteration_calls(lp, [c.bb]):
            ctx.viol((f.id, "resolve-skip"), "an iteration can skip the resolution of its target", c.where)
        # results: pushed in order on the Ok edge, Err returns
        ok_edges = f.edges_of_call_variant(c, "Ok")
        pushes = [p for p in f.calls_to("std::vec::Vec::<T, A>::push") if p.bb in lp["body"]
                  and f.origins_of_operand(p.args[1]) == f._call_origins(c, (("variant", "Ok"), ("field", 0)), frozenset())]
        if not pushes or lp["header"] in f.reach([x for (_, x) in ok_edges], avoid_blocks=[p.bb for p in pushes]):
            ctx.viol((f.id, "resolution-not-recorded"), "a target's resolution is not appended to the result vector", c.where)
        # lift the vector: at each caller of f, it is the Some payload of a history lookup
        pi = next(iter(vec))[0][1]
        for cc in ctx.P.callers.get(f.id, []):
            if cc.fn.body.get("in_test"):
                continue
            ctx.inst("remembered vector at %s" % cc.fn.id, cc.where)
            vo = cc.fn.origins_of_operand(cc.args[pi - 1])
            good = vo and all(is_call(o) and o[0][3] in (HIST_GET, DL_GET) and o[1:] == (("variant", "Some"), ("field", 0)) for o in vo)
            if not good and vo and any(o[0][0] == "call" and o[0][3].split("::")[0] not in ("std", "core", "alloc") and o[0][3] not in ctx.P.fns for o in vo):
                raise AnalysisError("idiom not recognised: what %s resolves against comes out of an unresolved trait method (%s)" % (cc.fn.id, sorted(o[0][3] for o in vo if o[0][0] == "call")[0]))
            if not good:
                ctx.viol((cc.fn.id, "remembered-not-lookup"), "targets are resolved against something other than the history lookup result (%s)" % sorted(map(fmt_origin, vo)), cc.where)
            else:
                # dominated by the Some edge of that lookup
                g = cc.fn
                hit = set()
                for o in vo:
                    hit |= g.edges_of_call_variant(g.call_at[o[0][2]], "Some")

                def from_lookups(o):
                    """an Option that is a lookup's result, or Some(payload of one) / None built from them"""
                    if is_call(o) and o[0][3] in (HIST_GET, DL_GET) and len(o) == 1:
                        return True
                    if o[0][0] == "agg" and len(o) == 1 and o[0][4] == "std::option::Option::None":
                        return True
                    if is_call(o, "std::ops::FromResidual::from_residual") and len(o) == 1:
                        return True         # the None of an `opt?` that found nothing
                    if o[0][0] == "agg" and len(o) == 1 and o[0][4] == "std::option::Option::Some":
                        rv2 = g.blocks[o[0][2]]["stmts"][o[0][3]]["rv"]
                        po = g.origins_of_operand(rv2["ops"][0])
                        return bool(po) and po <= vo
                    return False
                for bb2 in g.live:
                    info = g.switch_info(bb2)
                    if info and info["kind"] == "variant" and info.get("adt") == "std::option::Option" and info.get("origins") \
                            and all(from_lookups(o) for o in info["origins"]):
                        hit |= g.edges_variant(lambda i2, nm, oth, rest: i2 is info and nm == "Some")
                if not g.dominated_by_edges(cc.bb, hit):
                    ctx.viol((cc.fn.id, "remembered-unguarded"), "resolution against a lookup that may have missed", cc.where)
                ctx.ok()
        ctx.ok()


@rule("C01.R6", floor=1)
def c01_r6(ctx):
    """What is recorded is what is on disk after the command: execute_command -> Ok edge of
    the exit-status fold -> refresh of the blob's file states from the file system ->
    insert(sources_ticket, that vector); the WorkResult carries that vector and the
    refreshed blob."""
    W = WorkRoles(ctx.P)
    rbs = [f for f in W.rebuild_fns() if f.calls_to(HIST_INSERT)]
    ctx.need(len(rbs) == 1, "the rebuild function (execute_command + RuleHistory::insert)")
    f = rbs[0]
    ctx.saw(f)
    ex = sys_calls(f, "execute_command")
    ctx.need(len(ex) == 1, "one execute_command site")
    ex = ex[0]
    ctx.inst("rebuild chain", ex.where)
    # status fold on the command result
    fold = [c for c in f.calls if ctx.P.local_targets(c) and f.origins_of_operand(c.args[0]) == f._call_origins(ex, (), frozenset())] if True else []
    if len(fold) != 1:
        exo = f._call_origins(ex, (), frozenset())
        if any(lp["iter"] and all(o[:1] == next(iter(exo))[:1] for o in lp["iter"]) for lp in f.loops()):
            # the results are walked right here (the fold written out in place): C04.R1 is the
            # rule about how they are judged; the chain below needs the fold as one call
            raise AnalysisError("idiom not recognised: %s examines the command's results in a loop of its own instead of handing them to the exit-status fold" % f.id)
        ctx.viol((f.id, "status-not-folded"), "the command's results are not passed to the exit-status fold", ex.where)
        return
    fold = fold[0]
    fold_ok = f.edges_of_call_variant(fold, "Ok")
    refresh = [c for c in f.calls if c.path == "blob::Blob::update_to_match_system_file_state"]
    if len(refresh) != 1:
        ctx.viol((f.id, "no-refresh"), "file states are not refreshed from the file system after the command", ex.where)
        return
    rf = refresh[0]
    if not f.dominated_by_edges(rf.bb, fold_ok):
        ctx.viol((f.id, "refresh-before-status"), "targets are hashed although the command's status was not found to be success", rf.where)
    ins = f.calls_to(HIST_INSERT)
    ctx.need(len(ins) == 1, "one insert site")
    ins = ins[0]
    rf_ok = f.edges_of_call_variant(rf, "Ok")
    if not (f.dominated_by_edges(ins.bb, rf_ok) and f.dominated_by_edges(ins.bb, fold_ok)):
        ctx.viol((f.id, "insert-unguarded"), "history insert is reachable without a successful command and refresh", ins.where)
    payload = f._call_origins(rf, (("variant", "Ok"), ("field", 0)), frozenset())
    if f.origins_of_operand(ins.args[2]) != payload:
        ctx.viol((f.id, "insert-foreign-vector"), "the vector recorded is not the one just read from the file system", ins.where)
    blobv = f.vars_of_operand(rf.args[0])
    for (bb, idx, rv, pl) in f.constructs("work::WorkResult"):
        if not f.dominated_by_blocks(bb, [ex.bb]):
            continue        # a result of the branch that does not run the command (other rules)
        names = rv["kind"]["fields"]
        ops = dict(zip(names, rv["ops"]))
        if f.origins_of_operand(ops["file_state_vec"]) != payload:
            ctx.viol((f.id, "result-foreign-vector"), "the hashes announced to dependents are not the ones just read from the file system", f.where(bb, idx))
        if f.vars_of_operand(ops["blob"]) != blobv:
            ctx.viol((f.id, "result-foreign-blob"), "the blob returned is not the refreshed one", f.where(bb, idx))
        if not f.dominated_by_edges(bb, f.edges_of_call_variant(ins, "Ok")):
            ctx.viol((f.id, "result-without-insert"), "a successful result is built without a successful history insert", f.where(bb, idx))
    ctx.ok()


@rule("C01.R9", floor=1)
def c01_r9(ctx):
    """The refresh really refreshes: in the function that re-reads file states after a
    command, each info's file_state is assigned the Ok payload of the state reader called
    on that info's own path, on every iteration; the returned vector is built from the
    same payloads."""
    f = ctx.P.fn("blob::Blob::update_to_match_system_file_state")
    ctx.saw(f)
    lps = [l for l in f.loops() if l["iter"] and all(o[0][0] == "param" and ("field", "file_infos") in o for o in l["iter"])]
    ctx.need(len(lps) == 1, "one loop over the blob's infos in the refresh function")
    lp = lps[0]
    if not all(o[0][0] == "param" and ("field", "file_infos") in o and all(st[0] in ("iter", "adapt", "field") for st in o[1:]) for o in lp["iter"]):
        ctx.viol((f.id, "refresh-collection"), "the refresh does not traverse all of the blob's infos", f.where(lp["header"]))
    readers = [c for c in f.calls if c.bb in lp["body"] and ctx.P.local_targets(c) and
               "blob::FileState" in ctx.P.fns[ctx.P.local_targets(c)[0]].body.get("output", {}).get("s", "")
               and effects(ctx.P, ctx.P.local_targets(c)[0])]
    ctx.need(len(readers) == 1, "one state-reader call per iteration")
    rd = readers[0]
    ctx.inst("state reader", rd.where)
    elem = lp["elem"]
    if f.origins_of_operand(rd.args[1]) != {e + (("field", "path"),) for e in elem}:
        ctx.viol((f.id, "refresh-other-path"), "the state is read from a path that is not this info's", rd.where)
    payload = f._call_origins(rd, (("variant", "Ok"), ("field", 0)), frozenset())
    # assignment elem.file_state = payload(.clone())
    found = False
    store_blocks = []
    for b in f.blocks:
        if b["cleanup"] or b["i"] not in lp["body"]:
            continue
        for i, s in enumerate(b["stmts"]):
            if s["k"] == "assign" and s["place"]["proj"] and s["place"]["proj"][-1].get("name") == "file_state":
                base = f.origins_of_place({"local": s["place"]["local"], "proj": [e for e in s["place"]["proj"][:-1]]})
                if base == elem and f._rv_origins(s["rv"], (), b["i"], i, frozenset()) == payload:
                    found = True
                    store_blocks.append(b["i"])
                    ok_edges = f.edges_of_call_variant(rd, "Ok")
                    if lp["header"] in f.reach([x for (_, x) in ok_edges], avoid_blocks=[b["i"]]):
                        ctx.viol((f.id, "refresh-skipped"), "an iteration can skip storing the fresh state", f.where(b["i"], i))
    if not found:
        ctx.viol((f.id, "refresh-not-stored"), "the fresh file state is not stored back into the blob", rd.where)
    # the Err edge of the reader returns Err (a missing target is not papered over)
    err_edges = f.edges_of_call_variant(rd, "Err")
    if lp["header"] in f.reach([x for (_, x) in err_edges]):
        ctx.viol((f.id, "refresh-error-ignored"), "an unreadable / missing target after the command is ignored", rd.where)
    # returned vector built from the same payloads
    pushes = [p for p in f.calls_to("std::vec::Vec::<T, A>::push") if p.bb in lp["body"]]
    good = False
    want_t = {x + (("field", "ticket"),) for x in payload}
    for p in pushes:
        if _read_after_store(f, f.origins_of_operand(p.args[1]), p.bb, elem, payload, store_blocks) == want_t:
            good = True             # the hash itself is collected (possibly read back from the state just stored)
        for o in f.origins_of_operand(p.args[1]):
            if o[0][0] == "agg":
                rv = f.blocks[o[0][2]]["stmts"][o[0][3]]["rv"]
                ops = dict(zip(rv["kind"].get("fields", []), rv["ops"]))
                if "ticket" in ops and f.origins_of_operand(ops["ticket"]) == {x + (("field", "ticket"),) for x in payload}:
                    good = True
    if not good:
        ctx.viol((f.id, "refresh-vector"), "the returned hash vector is not built from the states just read", rd.where)
    else:
        ctx.ok()


@rule("C02.R6", floor=2)
def c02_r6(ctx):
    """What was learned is persisted: a WorkResult built by the handler / rebuild function
    carries Some(history) with the history of this rule (the one insert was called on);
    in the join loop every Ok(Ok(_)) path with Some(ticket) and Some(history) reaches
    write_rule_history keyed by the ticket stored beside that handle."""
    h, hcall, node = handler_fn(ctx)
    W = WorkRoles(ctx.P)
    for f in [h] + [x for x in W.rebuild_fns() if x.calls_to(HIST_INSERT)]:
        for (bb, idx, rv, pl) in f.constructs("work::WorkResult"):
            ops = dict(zip(rv["kind"]["fields"], rv["ops"]))
            ctx.inst("WorkResult in %s" % f.id, f.where(bb, idx))
            ho = f.origins_of_operand(ops["rule_history"])
            some = ho and all(o[0][0] == "agg" and o[0][4] == "std::option::Option::Some" for o in ho)
            if not some:
                ctx.viol((f.id, "history-not-returned"), "a finished rule returns no history: the next build would repeat the work", f.where(bb, idx))
                continue
            inner = set()
            for o in ho:
                arv = f.blocks[o[0][2]]["stmts"][o[0][3]]["rv"]
                inner |= f.origins_of_operand(arv["ops"][0])
            ins = f.calls_to(HIST_INSERT)
            if ins:
                if f.vars_of_operand(ins[0].args[0]) != _vars_of_origins(f, ho):
                    ctx.viol((f.id, "history-other"), "the history returned is not the one the new record was inserted into", f.where(bb, idx))
                else:
                    ctx.ok()
            else:
                if not all(o[0][0] == "param" and o[-1] == ("field", "rule_history") for o in inner):
                    ctx.viol((f.id, "history-other"), "the history returned is not this rule's history", f.where(bb, idx))
                else:
                    ctx.ok()
    # join loop: must-pass-through
    R = Roles(ctx.P)
    e = R.entry("build")
    ws = e.calls_to("history::History::<SystemType>::write_rule_history")
    ctx.need(len(ws) == 1, "write_rule_history site")
    w = ws[0]
    from roles import JOIN
    j = e.calls_to(JOIN)[0]
    jl = [lp for lp in e.loops() if j.bb in lp["body"]][0]
    ko = e.origins_of_operand(w.args[1])
    want_k = {el + (("field", 0), ("variant", "Some"), ("field", 0)) for el in jl["elem"]}
    if ko != want_k:
        ctx.viol((e.id, "history-key-foreign"), "the history file is named after something other than the ticket stored beside the joined handle", w.where)
    jo = e.origins_of_operand(j.args[0])
    if jo != {el + (("field", 1),) for el in jl["elem"]}:
        ctx.viol((e.id, "join-handle-foreign"), "the handle joined is not the one stored beside that ticket", j.where)
    inner = e._call_origins(j, (("variant", "Ok"), ("field", 0)), frozenset())
    wr = {o + (("variant", "Ok"), ("field", 0)) for o in inner}
    some_t = e.edges_of_value_variant({el + (("field", 0),) for el in jl["elem"]}, "Some")
    some_h = e.edges_of_value_variant({o + (("field", "rule_history"),) for o in wr}, "Some")
    if not some_t or not some_h:
        ctx.viol((e.id, "history-write-shape"), "cannot find the Some(ticket)/Some(history) tests before write_rule_history", w.where)
    else:
        # from the inner Some edge, the header cannot be reached without the write
        # (whichever of the two is tested first: after `a ticket is there`, only `no history`
        #  may lead on without the write, and the other way round - nothing else, e.g. not the
        #  state of other rules)
        none_t = e.edges_of_value_variant({el + (("field", 0),) for el in jl["elem"]}, "None")
        none_h = e.edges_of_value_variant({o + (("field", "rule_history"),) for o in wr}, "None")
        # (only the tests that lead to the write within this iteration: a later re-test of the
        #  same Option, left by drop elaboration, decides nothing)
        def leads_to_write(edges):
            return [b for (_, b) in edges if w.bb in e.reach([b], avoid_blocks=[jl["header"]])]
        r = e.reach(leads_to_write(some_t), avoid_blocks=[w.bb], avoid_edges=none_h) | \
            e.reach(leads_to_write(some_h), avoid_blocks=[w.bb], avoid_edges=none_t)
        if jl["header"] in r:
            ctx.viol((e.id, "history-write-skipped"), "a finished rule's history can go unwritten", w.where)
        else:
            ctx.ok()
    ctx.inst("history write", w.where)


def _vars_of_origins(f, origins):
    out = set()
    for o in origins:
        if o[0][0] == "agg":
            arv = f.blocks[o[0][2]]["stmts"][o[0][3]]["rv"]
            out |= f.vars_of_operand(arv["ops"][0])
    return out


@rule("C04.R6", floor=4)
def c04_r6(ctx):
    """The error names the file: the payload of WorkError::FileNotFound /
    TargetFileNotGenerated derives from the path carried by the failing lookup's error,
    which in turn is the FileInfo.path (resp. the path parameter) of the lookup that
    failed."""
    for adt, var in (("work::WorkError", "FileNotFound"), ("work::WorkError", "TargetFileNotGenerated")):
        sites = [(f, s) for f in WorkRoles(ctx.P).prod_fns() for s in f.constructs(adt, var)]
        ctx.need(sites, "a construction of %s::%s" % (adt, var))
        for f, (bb, idx, rv, pl) in sites:
            ctx.inst("%s::%s" % (adt, var), f.where(bb, idx))
            org = f.origins_of_operand(rv["ops"][0])
            good = org and all(is_call(o) and len(o) >= 4 and o[1] == ("variant", "Err") and o[-1] == ("field", 0) for o in org)
            if not good and f.body.get("impl_trait") in ("std::convert::From", "std::convert::Into") and \
                    org and all(o[0] == ("param", 1) and len(o) == 3 and o[1][0] == "variant" and o[2] == ("field", 0) for o in org):
                # a conversion between error types (`impl From<Inner> for WorkError`, used by `?`):
                # the path is the one the converted error carries
                good = True
            if not good:
                ctx.viol((f.id, "error-path-foreign", var), "%s does not carry the path reported by the failing lookup" % var, f.where(bb, idx))
            else:
                ctx.ok()
    for adt, var in (("blob::GetFileStateError", "FileNotFound"), ("blob::GetCurrentFileInfoError", "TargetFileNotFound")):
        sites = [(f, s) for f in WorkRoles(ctx.P).prod_fns() for s in f.constructs(adt, var)]
        ctx.need(sites, "a construction of %s::%s" % (adt, var))
        for f, (bb, idx, rv, pl) in sites:
            ctx.inst("%s::%s" % (adt, var), f.where(bb, idx))
            org = f.origins_of_operand(rv["ops"][0])
            # must be the very path that was looked up: find the lookup call that dominates and compare
            lookups = [c for c in f.calls if (c.trait == SYS and c.name in ("get_modified", "is_file", "open")) or
                       (ctx.P.local_targets(c) and ctx.P.fns[ctx.P.local_targets(c)[0]].body.get("output", {}).get("s", "").startswith("std::result::Result<std::option::Option<ticket::Ticket>"))]
            same_calls = [c for c in lookups if c.bb != bb and f.origins_of_operand(c.args[1]) == org]
            same = bool(same_calls) and f.dominated_by_blocks(bb, [c.bb for c in same_calls])
            if not same:
                ctx.viol((f.id, "error-path-other-file", var), "%s names a path other than the one whose lookup failed" % var, f.where(bb, idx))
            else:
                ctx.ok()


@rule("C17.R1", floor=1)
def c17_r1(ctx):
    """Insert never overwrites: HashMap::insert on the history map happens only on the None
    edge of a lookup of the same key; the Some edge returns the comparison's verdict and
    maps Contradiction to Err."""
    f = ctx.P.fn(HIST_INSERT)
    ctx.saw(f)
    # nothing is ever taken out of the map of remembered results (anywhere in production code):
    # a record that is dropped cannot contradict the next execution on the same sources
    for g in ctx.P.fns.values():
        if g.body.get("in_test") or g.kind == "promoted":
            continue
        for c in g.calls:
            if c.name in ("clear", "remove", "remove_entry", "retain", "drain", "extract_if", "split_off", "pop_first", "pop_last") \
                    and ("HashMap" in c.path or "BTreeMap" in c.path) and c.args:
                mo = g.origins_of_operand(c.args[0])
                if mo and all(o[-1] == ("field", "source_to_targets") for o in mo):
                    ctx.viol((g.id, "records-dropped", c.name), "remembered results are taken out of a rule's history (%s): when the same sources come back, a differing result is recorded as if it were the first, and no contradiction is reported" % c.name, c.where)
    ins = f.calls_to("std::collections::HashMap::<K, V, S>::insert")
    if not ins and [c for c in f.calls if c.name == "entry" and "HashMap" in c.path]:
        # the entry API: `match map.entry(k) { Occupied(e) => .. e.get() .., Vacant(v) => v.insert(x) }`.
        # What can be decided without a reader for the whole form: an occupied entry must stay
        # as it is - removing or replacing it loses or overwrites the earlier record.
        ctx.inst("map entry", f.where(0))
        bad = [c for c in f.calls if "OccupiedEntry" in (c.callee.get("full") or c.path) and c.name in ("remove", "remove_entry", "insert", "replace_entry", "replace_key")]
        for c in bad:
            ctx.viol((f.id, "occupied-entry-" + c.name), "the record that already exists for these sources is %s: what an earlier execution produced is no longer there to compare the next one with (and an unchanged rule is executed again)" % ("removed" if c.name.startswith("remove") else "replaced"), c.where)
        if bad:
            return
        raise AnalysisError("idiom not recognised: %s uses the map's entry API (the rule reads get + insert)" % f.id)
    ctx.need(ins, "HashMap::insert in RuleHistory::insert")
    gets = f.calls_to("std::collections::HashMap::<K, V, S>::get")
    for i in ins:
        ctx.inst("map insert", i.where)
        guard = None
        for g in gets:
            same_map = f.origins_of_operand(g.args[0]) == f.origins_of_operand(i.args[0])
            same_key = f.origins_of_operand(g.args[1]) == f.origins_of_operand(i.args[1])
            if same_map and same_key and f.dominated_by_edges(i.bb, f.edges_of_call_variant(g, "None")):
                guard = g
        if guard is None:
            ctx.viol((f.id, "insert-overwrites"), "a history entry can be overwritten: insert is not guarded by a miss on the same key", i.where)
            continue
        vo = f.origins_of_operand(i.args[2])
        if not all(o[0][0] == "param" for o in vo):
            ctx.viol((f.id, "insert-foreign-value"), "the value inserted is not the caller's vector", i.where)
        # Some edge: compare(existing, new) and its Err(Contradiction) -> Err
        some = f.edges_of_call_variant(guard, "Some")
        cmp = [c for c in f.calls_to("blob::FileStateVec::compare") if f.dominated_by_edges(c.bb, some)]
        if not cmp:
            ctx.viol((f.id, "no-compare"), "an existing entry is not compared with the new result", guard.where)
            continue
        c = cmp[0]
        a0 = f.origins_of_operand(c.args[0])
        a1 = f.origins_of_operand(c.args[1])
        exist = f._call_origins(guard, (("variant", "Some"), ("field", 0)), frozenset())
        if not ((a0 == exist and a1 == vo) or (a1 == exist and a0 == vo)):
            ctx.viol((f.id, "compare-operands"), "the comparison is not between the existing entry and the new vector", c.where)
        err_payload = f._call_origins(c, (("variant", "Err"), ("field", 0)), frozenset())
        contra = f.edges_variant(lambda info, nm, oth, rest: info["origins"] == err_payload and nm == "Contradiction")
        if not contra:
            ctx.viol((f.id, "contradiction-unmatched"), "the Contradiction verdict is not examined", c.where)
            continue
        r = f.reach([x for (_, x) in contra])
        rets = [(bb, idx, rv) for (bb, idx, rv, pl) in f.constructs("std::result::Result") if pl["local"] == 0 and bb in r]
        if not rets:
            raise AnalysisError("idiom not recognised: no Result is built for the return value after the Contradiction arm of %s" % f.id)
        errs = [bb for (bb, _, rv) in rets if rv["kind"]["variant"] == "Err"]
        escape = f.reach([x for (_, x) in contra], avoid_blocks=errs)
        if any(rv["kind"]["variant"] != "Err" for (_, _, rv) in rets) or any(b in escape for b in f.return_blocks):
            ctx.viol((f.id, "contradiction-accepted"), "a contradiction with the recorded outputs does not produce an error", c.where)
        else:
            # carries the indices
            ctx.ok()
        # Ok(()) only when compare said Ok
        okc = f.edges_of_call_variant(c, "Ok")
        none = f.edges_of_call_variant(guard, "None")
        for (bb, idx, rv, pl) in f.constructs("std::result::Result", "Ok"):
            if pl["local"] == 0 and not (f.dominated_by_edges(bb, okc) or f.dominated_by_edges(bb, none)):
                ctx.viol((f.id, "ok-unjustified"), "insert reports Ok although the comparison did not", f.where(bb, idx))


@rule("C17.R2", floor=1)
def c17_r2(ctx):
    """Every re-execution is checked: in the rebuild function every path from the Ok edge of
    the post-command refresh to an Ok return passes through RuleHistory::insert, and its
    Err(Contradiction) edge returns WorkError::Contradiction."""
    W = WorkRoles(ctx.P)
    for f in W.rebuild_fns():
        if f.body.get("impl_trait"):
            continue
        ex = sys_calls(f, "execute_command")
        # (the Ok results of the branch that runs the command; a function that also holds the
        #  no-rebuild branch has other Ok results, judged by C01.R5 / C02.R6)
        oks = [(bb, idx) for (bb, idx, rv, pl) in f.constructs("std::result::Result", "Ok") if pl["local"] == 0 and "WorkResult" in f.body.get("output", {}).get("s", "")
               and ex and f.dominated_by_blocks(bb, [c2.bb for c2 in ex])]
        if not oks:
            continue
        ctx.saw(f)
        ctx.inst("rebuild fn %s" % f.id, ex[0].where)
        ins = f.calls_to(HIST_INSERT)
        ins_ok = set()
        for i in ins:
            ins_ok |= f.edges_of_call_variant(i, "Ok")
        for (bb, idx) in oks:
            if not (ins and f.dominated_by_edges(bb, ins_ok) and bb in f.reach_after(ex[0].bb)):
                ctx.viol((f.id, "result-unchecked"), "a re-executed rule can succeed without its outputs being checked against the history", f.where(bb, idx))
            else:
                ctx.ok()
        for i in ins:
            errp = f._call_origins(i, (("variant", "Err"), ("field", 0)), frozenset())
            contra = f.edges_variant(lambda info, nm, oth, rest: info["origins"] == errp and nm == "Contradiction")
            if not contra:
                ctx.viol((f.id, "contradiction-dropped"), "the insert's Contradiction verdict is not examined", i.where)
                continue
            sites = [(bb, idx) for (bb, idx, rv, pl) in f.constructs("work::WorkError", "Contradiction") if f.dominated_by_edges(bb, contra)]
            r = f.reach([x for (_, x) in contra], avoid_blocks=[bb for (bb, idx) in sites])
            if not sites or any(b in r for b in f.return_blocks):
                ctx.viol((f.id, "contradiction-not-reported"), "a contradiction does not end in WorkError::Contradiction", i.where)
            # every Err edge of insert returns Err (never Ok)
            erre = f.edges_of_call_variant(i, "Err")
            after = f.reach([x for (_, x) in erre])
            if any(bb in after for (bb, idx) in oks):
                ctx.viol((f.id, "insert-error-ignored"), "a failed history insert can still yield success", i.where)


def _compare_by_zip(ctx, f, pushes):
    """The element-wise form of the comparison:
    `a.infos.iter().zip(b.infos.iter()).enumerate().filter(|(_, (x, y))| x.ticket != y.ticket).map(|(i, _)| i).collect()`
    (read after desugaring as a loop).  Returns True if compare is written that way (and judges it)."""
    zips = [c for c in f.calls if c.path == "std::iter::Iterator::zip"]
    if len(zips) != 1 or len(pushes) != 1:
        return False
    z, p = zips[0], pushes[0]
    lps = [lp for lp in f.loops() if p.bb in lp["body"]]
    if not lps:
        return False
    lp = min(lps, key=lambda l: len(l["body"]))
    if not (lp["iter"] and all(("truncate", "zip") in o and ("adapt", "enumerate") in o for o in lp["iter"])):
        return False
    ctx.inst("index push (zip form)", p.where)

    def side(op):
        org = f.origins_of_operand(op)
        if org and all(o[0][0] == "param" and ("field", "infos") in o and all(st[0] in ("field", "iter") for st in o[1:]) for o in org):
            return {o[0][1] for o in org}
        return None
    s0, s1 = side(z.args[0]), side(z.args[1])
    if s0 is None or s1 is None or s0 | s1 != {1, 2} or s0 == s1:
        ctx.viol((f.id, "compare-operands-zip"), "the lists compared element by element are not self.infos and other.infos in full", z.where)
        return True
    if any(st[0] == "truncate" and st[1] != "zip" for o in lp["iter"] for st in o[1:]):
        ctx.viol((f.id, "compare-early-exit"), "the comparison does not cover every position", f.where(lp["header"]))
        return True
    # zip stops at the shorter list: the lengths must have been found equal

    def lens_differ(d):
        def is_len(op, k):
            for o in f.origins_of_operand(op):
                if o[0][0] == "call" and len(o) == 1 and o[0][3].split("::")[-1] == "len":
                    a = f.origins_of_operand(f.call_at[o[0][2]].args[0])
                    if a and all(x[0] == ("param", k) and ("field", "infos") in x for x in a):
                        return True
            return False
        return (is_len(d["a"], 1) and is_len(d["b"], 2)) or (is_len(d["a"], 2) and is_len(d["b"], 1))
    eq_len = f.cmp_edges(lambda d: d["op"] == "Ne" and lens_differ(d), False) | f.cmp_edges(lambda d: d["op"] == "Eq" and lens_differ(d), True)
    if not f.dominated_by_edges(z.bb, eq_len):
        ctx.viol((f.id, "zip-without-length-check"), "targets are compared pairwise without the two lists having been found equally long: surplus targets would be ignored", z.where)
        return True
    elem = lp["elem"]
    if f.origins_of_operand(p.args[1]) != {e + (("field", 0),) for e in elem}:
        ctx.viol((f.id, "index-not-position"), "the value reported is not the position of the differing pair", p.where)
        return True

    def differ(d):
        if "call" not in d or d["call"].self_ty != "ticket::Ticket":
            return False
        ao, bo = f.origins_of_operand(d["a"]), f.origins_of_operand(d["b"])
        want0 = {e + (("field", 1), ("field", 0), ("field", "ticket")) for e in elem}
        want1 = {e + (("field", 1), ("field", 1), ("field", "ticket")) for e in elem}
        return (ao == want0 and bo == want1) or (ao == want1 and bo == want0)
    edges = f.cmp_edges(lambda d: d["op"] == "Ne" and differ(d), True) | f.cmp_edges(lambda d: d["op"] == "Eq" and differ(d), False)
    if not edges:
        raise AnalysisError("idiom not recognised: %s zips the two lists but the tickets of a pair are not compared in a form this rule reads" % f.id)
    if not f.dominated_by_edges(p.bb, edges):
        ctx.viol((f.id, "index-push-unguarded"), "a position is reported without the two tickets at that position having been found different", p.where)
    elif lp["header"] in f.reach([x for (_, x) in edges], avoid_blocks=[p.bb]):
        ctx.viol((f.id, "differing-index-dropped"), "a differing target can go unreported", p.where)
    elif f.loop_exits(lp):
        ctx.viol((f.id, "compare-early-exit"), "the comparison loop can stop early", f.where(lp["header"]))
    else:
        ctx.ok()
    return True


@rule("C17.R3", floor=2)
def c17_r3(ctx):
    """Exactly the differing targets are named: the comparison pushes index i under the edge
    `tickets at i differ`, i being the common index of both operands; the paths reported are
    paths[index] of the same blob that was refreshed."""
    f = ctx.P.fn("blob::FileStateVec::compare")
    ctx.saw(f)
    pushes = f.calls_to("std::vec::Vec::<T, A>::push")
    if not pushes:
        # no list is built position by position: is the report fed by a consumer that stops at
        # the first hit (`position`, `find`, ..)?
        def feeds(op, depth=0):
            """calls on the way from an operand back through iterator plumbing"""
            out = []
            if depth > 8:
                return out
            for o in f.origins_of_operand(op):
                if o[0][0] == "call":
                    c = f.call_at[o[0][2]]
                    out.append(c)
                    if c.args:
                        out += feeds(c.args[0], depth + 1)
            return out
        for (bb, idx, rv, pl) in f.constructs("blob::BlobError", "Contradiction"):
            chain = feeds(rv["ops"][0])
            stop = [c for c in chain if c.name in ("position", "rposition", "find", "find_map", "nth", "min", "max", "last", "next") and c.path.startswith("std::iter::Iterator::")]
            if stop:
                ctx.inst("first-hit consumer feeding the report", stop[0].where)
                ctx.viol((f.id, "only-first-difference-reported"), "the differing targets are taken from `%s`, which yields at most one position: when several targets differ from the record only one of them is named" % stop[0].name, stop[0].where)
                return
    ctx.need(pushes, "index push in compare")
    zipped = _compare_by_zip(ctx, f, pushes)
    for p in ([] if zipped else pushes):
        ctx.inst("index push", p.where)
        io = f.origins_of_operand(p.args[1])

        def differ(desc):
            if "call" not in desc or desc["call"].self_ty != "ticket::Ticket":
                return False
            a, b = desc["a"], desc["b"]
            pa = _indexed_ticket(f, a)
            pb = _indexed_ticket(f, b)
            if pa is None or pb is None:
                return False
            (ra, ia), (rb, ib) = pa, pb
            return ra != rb and ia == ib == io and {ra, rb} == {1, 2}
        edges = f.cmp_edges(lambda d: d["op"] == "Ne" and differ(d), True) | f.cmp_edges(lambda d: d["op"] == "Eq" and differ(d), False)
        if not edges:
            # tickets are compared, but not as `a.infos[i].ticket` vs `b.infos[i].ticket` (e.g.
            # element-wise over zip): the alignment cannot be read off index expressions
            other = f.cmp_edges(lambda d: "call" in d and d["call"].self_ty == "ticket::Ticket", True)
            if other:
                raise AnalysisError("idiom not recognised: %s compares tickets, but not through two index expressions with a common index" % f.id)
        if not f.dominated_by_edges(p.bb, edges):
            ctx.viol((f.id, "index-push-unguarded"), "an index is reported without `self.infos[i].ticket != other.infos[i].ticket` for that same i", p.where)
        else:
            same = f.cmp_edges(lambda d: d["op"] == "Ne" and differ(d), False) | f.cmp_edges(lambda d: d["op"] == "Eq" and differ(d), True)
            ctx.ok()
        # the differing edge always pushes
        lps = [lp for lp in f.loops() if p.bb in lp["body"]]
        if lps and lps[0]["header"] in f.reach([x for (_, x) in edges], avoid_blocks=[p.bb]):
            ctx.viol((f.id, "differing-index-dropped"), "a differing target can go unreported", p.where)
        # loop covers 0..len
        if lps:
            lp = lps[0]
            if f.loop_exits(lp):
                ctx.viol((f.id, "compare-early-exit"), "the comparison loop can stop early", f.where(lp["header"]))
    # contradiction iff some index was pushed; mapping indices -> paths in the rebuild fn
    W = WorkRoles(ctx.P)
    for rb in W.rebuild_fns():
        for (bb, idx, rv, pl) in rb.constructs("work::WorkError", "Contradiction"):
            ctx.inst("Contradiction paths", rb.where(bb, idx))
            vec = rb.vars_of_operand(rv["ops"][0])
            pushes = [p for p in rb.calls_to("std::vec::Vec::<T, A>::push") if rb.vars_of_operand(p.args[0]) == vec]
            good = False
            unread = False
            for p in pushes:
                for o in rb.origins_of_operand(p.args[1]):
                    if is_call(o) and "Index" in o[0][3]:
                        ix = rb.call_at[o[0][2]]
                        base = rb.origins_of_operand(ix.args[0])
                        i_o = rb.origins_of_operand(ix.args[1])
                        lps = [lp for lp in rb.loops() if p.bb in lp["body"]]
                        paths_ok = all(is_call(b, "blob::Blob::get_paths") for b in base)
                        blob_ok = False
                        if not paths_ok and o[1:] == (("field", "path"),) and base and all(b[-1] == ("field", "file_infos") for b in base):
                            # `blob.file_infos[i].path`: the same string get_paths()[i] is a copy of
                            rf = rb.calls_to("blob::Blob::update_to_match_system_file_state")
                            paths_ok = True
                            blob_ok = bool(rf) and {b[:-1] for b in base} == rb.origins_of_operand(rf[0].args[0])
                        for b in base:
                            if is_call(b, "blob::Blob::get_paths"):
                                gp = rb.call_at[b[0][2]]
                                rf = rb.calls_to("blob::Blob::update_to_match_system_file_state")
                                blob_ok = bool(rf) and rb.vars_of_operand(gp.args[0]) == rb.vars_of_operand(rf[0].args[0])
                        idx_ok = bool(lps) and i_o == lps[0]["elem"] and all(
                            o2[0][0] == "call" and o2[0][3] == HIST_INSERT for o2 in lps[0]["iter"])
                        if paths_ok and blob_ok and idx_ok and rb.every_iteration_calls(lps[0], [p.bb]) and not rb.loop_exits(lps[0]):
                            good = True
                        elif paths_ok and blob_ok and not idx_ok:
                            # `paths[indices[k]]` in a counter loop, an iterator the reader does not
                            # know: the index does come out of the reported list, how completely is
                            # not read
                            roots = set()
                            work = list(i_o)
                            for _ in range(6):
                                nxt = []
                                for x in work:
                                    if is_call(x) and "Index" in x[0][3]:
                                        nxt.extend(rb.origins_of_operand(rb.call_at[x[0][2]].args[0]))
                                    else:
                                        roots.add(x)
                                work = nxt
                                if not work:
                                    break
                            if roots and all(x[0][0] == "call" and x[0][3] == HIST_INSERT for x in roots):
                                unread = True
            if not good and "blob::Blob::get_paths" not in ctx.P.fns:
                raise AnalysisError("C17.R3: anchor missing: Blob::get_paths (the rule reads the reported paths as get_paths()[i])")
            if good:
                ctx.ok()
            elif unread:
                raise AnalysisError("idiom not recognised: %s takes the contradicting paths as paths[i] with i out of the reported list, but not in a `for` over that list" % rb.id)
            else:
                ctx.viol((rb.id, "contradiction-paths"), "the paths named by the contradiction error are not `paths[i]` of this rule's blob for every reported i", rb.where(bb, idx))


def _indexed_ticket(f, op):
    """operand = &X.infos[i].ticket  ->  (root param of X, origins of i)"""
    for o in f.origins_of_operand(op):
        if o[-1] != ("field", "ticket"):
            return None
        # (... call Index::index(vec, i)) .ticket
        if is_call(o) and "Index" in o[0][3]:
            ix = f.call_at[o[0][2]]
            base = f.origins_of_operand(ix.args[0])
            if len(base) != 1:
                return None
            b = next(iter(base))
            if b[0][0] != "param" or b[-1] != ("field", "infos"):
                return None
            return (b[0][1], frozenset(f.origins_of_operand(ix.args[1])))
    return None


@rule("C18.R1", floor=2)
def c18_r1(ctx):
    """The shortcut is an exact-equality shortcut: every use of the assumed ticket as the
    result is dominated by the true edge of `timestamp == assumed.timestamp` where the
    timestamp is that of the very path being hashed."""
    W = WorkRoles(ctx.P)
    fns = W.shortcut_fns()
    ctx.need(len(fns) >= 2, "the two functions implementing the mtime shortcut")
    for f in fns:
        ctx.saw(f)
        eq = W.timestamp_eq_edges(f, True)
        # sites: clones / copies of param.ticket flowing out
        sites = []
        for c in f.calls:
            if c.path == "std::clone::Clone::clone" and c.args:
                org = f._op_origins(c.args[0], (), frozenset())
                if org and all(o[0][0] == "param" and o[-1] == ("field", "ticket") and "FileState" in f.local_ty(o[0][1])["s"] for o in org):
                    sites.append(c)
        if not sites:
            ctx.viol((f.id, "shortcut-shape"), "timestamp comparison found but no use of the assumed ticket", f.where(0))
            continue
        for c in sites:
            ctx.inst("assumed ticket reused in %s" % f.id, c.where)
            if not f.dominated_by_edges(c.bb, eq):
                ctx.viol((f.id, "shortcut-not-exact"), "the remembered hash is reused without `mtime == remembered mtime` (exact equality)", c.where)
                continue
            # the timestamp compared is that of the path parameter of this call
            ok = True
            for bb in f.live:
                info = f.switch_info(bb)
                d = f.cmp_desc(info) if info else None
                if d and (W._is_ts(f, d["a"]) != W._is_ts(f, d["b"])):
                    oo = W.ts_other_origins(f, d)
                    # other = Ok payload of get_timestamp(Ok payload of get_modified(path param))
                    for o in oo:
                        if not (is_call(o, "system::util::get_timestamp") and o[1:] == (("variant", "Ok"), ("field", 0))):
                            ok = False
                            continue
                        gt = f.call_at[o[0][2]]
                        for o2 in f.origins_of_operand(gt.args[0]):
                            if not (is_call(o2, "system::System::get_modified") and o2[1:] == (("variant", "Ok"), ("field", 0))):
                                ok = False
                                continue
                            gm = f.call_at[o2[0][2]]
                            po = f.origins_of_operand(gm.args[1])
                            if not all(p[0][0] == "param" and len(p) == 1 for p in po):
                                ok = False
            if ok:
                ctx.ok()
            else:
                ctx.viol((f.id, "shortcut-other-file"), "the mtime compared is not that of the file being hashed", c.where)


@rule("C20.R2", floor=5)
def c20_r2(ctx):
    """Each status has exactly its cause: CommandExecuted is built only after execute_command;
    Resolutions only on the no-rebuild branch; FileResolution::Recovered only on the Done
    edge of the local restore; RestoreResult::Done only on the Ok edge of the rename;
    Downloaded only on the Done edge of the download; AlreadyCorrect only on an effect-free
    path (C02.R2)."""
    W = WorkRoles(ctx.P)
    prod = W.prod_fns()
    # CommandExecuted
    sites = [(f, s) for f in prod for s in f.constructs("work::WorkOption", "CommandExecuted")]
    ctx.need(sites, "CommandExecuted construction")
    for f, (bb, idx, rv, pl) in sites:
        ctx.inst("CommandExecuted", f.where(bb, idx))
        ex = sys_calls(f, "execute_command")
        if ex and f.dominated_by_blocks(bb, [c.bb for c in ex]) and bb not in [c.bb for c in ex]:
            ctx.ok()
        else:
            ctx.viol((f.id, "built-without-command"), "'Built' can be reported although no command ran", f.where(bb, idx))
    sites = [(f, s) for f in prod for s in f.constructs("work::WorkOption", "Resolutions")]
    ctx.need(sites, "Resolutions construction")
    for f, (bb, idx, rv, pl) in sites:
        ctx.inst("Resolutions", f.where(bb, idx))
        back = {b for b in f.reach([0]) if bb in f.reach([b])}
        R = Roles(ctx.P)
        bad = [f.call_at[b] for b in back if b in f.call_at and b != bb and ("execute_command" in call_effects(ctx.P, f.call_at[b]))]
        if bad:
            ctx.viol((f.id, "resolutions-after-command"), "per-target statuses can be reported although the command ran", bad[0].where)
        else:
            ctx.ok()
    # Recovered / Downloaded
    for var, callee, what in (("Recovered", W.restore_local(), "local restore"), ("Downloaded", W.restore_download(), "download")):
        sites = [(f, s) for f in prod for s in f.constructs("blob::FileResolution", var)]
        ctx.need(sites, "%s construction" % var)
        for f, (bb, idx, rv, pl) in sites:
            ctx.inst(var, f.where(bb, idx))
            cs = f.calls_to(callee)
            done = set()
            for c in cs:
                done |= f.edges_of_call_variant(c, "Done")
            if cs and f.dominated_by_edges(bb, done):
                ctx.ok()
            else:
                ctx.viol((f.id, "status-without-cause", var), "'%s' can be reported although the %s did not happen" % (var, what), f.where(bb, idx))
    sites = [(f, s) for f in prod for s in f.constructs("cache::RestoreResult", "Done")]
    ctx.need(sites, "RestoreResult::Done construction")
    for f, (bb, idx, rv, pl) in sites:
        ctx.inst("RestoreResult::Done", f.where(bb, idx))
        rn = sys_calls(f, "rename")
        ok_edges = set()
        for c in rn:
            ok_edges |= f.edges_of_call_variant(c, "Ok")
        if rn and f.dominated_by_edges(bb, ok_edges):
            ctx.ok()
        else:
            ctx.viol((f.id, "done-without-rename"), "the cache reports a restore as done although no rename succeeded", f.where(bb, idx))
    sites = [(f, s) for f in prod for s in f.constructs("cache::DownloadResult", "Done")]
    for f, (bb, idx, rv, pl) in sites:
        ctx.inst("DownloadResult::Done", f.where(bb, idx))
        dl = [c for c in f.calls if c.path.startswith("downloader::download_file")]
        ok_edges = set()
        for c in dl:
            ok_edges |= f.edges_of_call_variant(c, "Ok")
        if dl and f.dominated_by_edges(bb, ok_edges):
            ctx.ok()
        else:
            ctx.viol((f.id, "download-done-without-download"), "a download is reported as done although no download succeeded", f.where(bb, idx))


@rule("C01.R8", floor=3)
def c01_r8(ctx):
    """Each rule thread works on its own rule: in the spawn loop the history captured by a
    node's closure is the Ok payload of read_rule_history(&node.rule_ticket) of the node
    being spawned; the ticket stored beside the join handle (the key of the later
    write_rule_history) is that same node.rule_ticket; the command and history handed to the
    handler are the captured node's command and that captured history."""
    R = Roles(ctx.P)
    leaf, node = R.build_closures()
    b = R.entry("build")
    pf, bb, idx, rv = ctx.P.closure_sites[node.id]
    caps = node.body["captures"]
    lps = [lp for lp in b.loops() if bb in lp["body"]]
    ctx.need(lps, "node spawn loop")
    lp = max(lps, key=lambda l: len(l["body"]))
    elem_node = {e + (("field", 0),) for e in lp["elem"]}
    slots = node.capture_slots()
    hist_s = [sl for sl in slots if sl["ty"]["s"] == "history::RuleHistory"]
    node_s = [sl for sl in slots if sl["ty"]["s"] == "sort::Node"]
    ctx.need(len(hist_s) == 1 and len(node_s) <= 1, "one captured RuleHistory (and at most one Node)")
    ctx.inst("captured history", b.where(bb, idx))
    ho = b._op_origins(rv["ops"][hist_s[0]["i"]], tuple(hist_s[0]["steps"][1:]), frozenset())
    ok = ho and all(o[0][0] == "call" and o[0][3].endswith("read_rule_history") and o[1:] == (("variant", "Ok"), ("field", 0)) for o in ho)
    if ok:
        for o in ho:
            rh = b.call_at[o[0][2]]
            if b.origins_of_operand(rh.args[1]) != {e + (("field", "rule_ticket"),) for e in elem_node}:
                ok = False
    if ok:
        ctx.ok()
    else:
        ctx.viol((b.id, "foreign-history"), "the history given to a rule's thread is not read_rule_history(rule_ticket) of the node being spawned", b.where(bb, idx))
    ctx.inst("captured node", b.where(bb, idx))
    if node_s and b._op_origins(rv["ops"][node_s[0]["i"]], tuple(node_s[0]["steps"][1:]), frozenset()) != elem_node:
        ctx.viol((b.id, "foreign-node"), "the node given to a rule's thread is not this iteration's node", b.where(bb, idx))
    else:
        ctx.ok()

    def lifted(org):
        """origins inside the closure (captured places) -> origins in build()"""
        out = set()
        for o in org:
            if not (o[0] == ("param", 1) and len(o) >= 2 and o[1][0] == "field" and o[1][1] in caps):
                return None
            out |= b._op_origins(rv["ops"][caps.index(o[1][1])], tuple(o[2:]), frozenset())
        return out
    # the ticket stored beside the handle
    sp = [cs for (p2, cs, cl) in R.spawns() if cl is node][0]
    spo = b._call_origins(sp, (), frozenset())
    pushes = []
    for p in b.calls_to("std::vec::Vec::<T, A>::push"):
        if p.bb not in lp["body"] or p.args[1]["k"] not in ("copy", "move"):
            continue
        for o in b.origins_of_operand(p.args[1]):
            if o[0][0] == "agg" and o[0][4] == "tuple":
                trv = b.blocks[o[0][2]]["stmts"][o[0][3]]["rv"]
                if any(b.origins_of_operand(x) == spo for x in trv["ops"]):
                    pushes.append(p)
    ctx.inst("handle + ticket", pushes[0].where if pushes else sp.where)
    good = False
    for p in pushes:
        for o in b.origins_of_operand(p.args[1]):
            if o[0][0] == "agg" and o[0][4] == "tuple":
                trv = b.blocks[o[0][2]]["stmts"][o[0][3]]["rv"]
                if len(trv["ops"]) != 2:
                    continue
                # the pair (ticket, handle), in either order
                hi = [k for k, x in enumerate(trv["ops"]) if b.origins_of_operand(x) == spo]
                if len(hi) != 1:
                    continue
                t0 = b.origins_of_operand(trv["ops"][1 - hi[0]])
                t1 = b.origins_of_operand(trv["ops"][hi[0]])
                some = all(x[0][0] == "agg" and x[0][4].endswith("Option::Some") for x in t0) and t0
                if some:
                    inner = set()
                    for x in t0:
                        srv = b.blocks[x[0][2]]["stmts"][x[0][3]]["rv"]
                        inner |= b.origins_of_operand(srv["ops"][0])
                    if inner == {e + (("field", "rule_ticket"),) for e in elem_node} and t1 == b._call_origins(sp, (), frozenset()):
                        good = True
    if good:
        ctx.ok()
    else:
        ctx.viol((b.id, "handle-ticket-mismatch"), "the ticket stored beside a thread's join handle is not the rule_ticket of the node that thread works on: its history would be written under another rule's name", sp.where)
    # inside the closure: RuleExt{command: node.command, rule_history: captured history, ...}
    for (b2, i2, rv2, pl2) in node.constructs("work::RuleExt"):
        ctx.inst("RuleExt", node.where(b2, i2))
        ops = dict(zip(rv2["kind"]["fields"], rv2["ops"]))
        if lifted(node.origins_of_operand(ops["command"])) != {e + (("field", "command"),) for e in elem_node}:
            ctx.viol((node.id, "foreign-command"), "the command handed to the handler is not the command of the node this thread was spawned for", node.where(b2, i2))
        elif node.origins_of_operand(ops["rule_history"]) != {(("param", 1),) + tuple(hist_s[0]["steps"])}:
            ctx.viol((node.id, "foreign-history-in-closure"), "the history handed to the handler is not the captured one", node.where(b2, i2))
        else:
            ctx.ok()


@rule("C01.R10", floor=2)
def c01_r10(ctx):
    """Every file state ruler stores for a path describes the file at that path: each store
    into `FileInfo.file_state` is either the Ok payload of the state reader called on that
    info's own path, or a FileState whose ticket is the hash just computed from that path
    (Ok(Some) payload of the file-hash function / from_path on the same path) and whose
    timestamp derives from get_modified of the same path - never a field kept from the state
    of the file that was there before."""
    W = WorkRoles(ctx.P)
    hashers = {h.id for h in W.hash_fns()} | {f.id for f in W.prod_fns() if f.body.get("output", {}).get("s", "").startswith("std::result::Result<std::option::Option<ticket::Ticket>")}
    readers = {f.id for f in W.prod_fns() if "Result<blob::FileState" in f.body.get("output", {}).get("s", "") and effects(ctx.P, f.id)}
    partial = {}
    for f in W.prod_fns():
        for b in f.blocks:
            if b["cleanup"]:
                continue
            for i, st in enumerate(b["stmts"]):
                if st["k"] != "assign" or not st["place"]["proj"]:
                    continue
                pr = st["place"]["proj"]
                fields = [e for e in pr if e["k"] == "field"]
                if len(fields) >= 2 and fields[-2].get("name") == "file_state" and fields[-1].get("name") in ("timestamp", "ticket", "executable"):
                    partial.setdefault((f.id, frozenset(f.origins_of_place({"local": st["place"]["local"], "proj": pr[:pr.index(fields[-2])]}))), {})[fields[-1]["name"]] = (f, b["i"], i)
                    continue
                if not fields or fields[-1].get("name") != "file_state" or "blob::FileState" not in fields[-1].get("ty", ""):
                    continue
                if any(e["k"] == "field" and e is not fields[-1] and e.get("name") in ("ticket", "timestamp", "executable") for e in pr):
                    continue
                # whole-state store `X.file_state = v`
                base = f.origins_of_place({"local": st["place"]["local"], "proj": pr[:pr.index(fields[-1])]})
                path_o = {o + (("field", "path"),) for o in base}
                ctx.inst("file state stored in %s" % f.id, f.where(b["i"], i))
                # the place written must belong to the object that is kept (self / a parameter /
                # a variable), not to a copy returned by a call that is dropped afterwards
                lost = [o for o in f.storage_of_place({"local": st["place"]["local"], "proj": pr[:pr.index(fields[-1])]})
                        if is_call(o) and not f.is_user(f.call_at[o[0][2]].dest["local"])]
                if lost:
                    ctx.viol((f.id, "state-stored-into-a-copy"), "the refreshed file state is written into a temporary copy (%s) and discarded: the table keeps the state of the file that was there before" % fmt_origin(lost[0]), f.where(b["i"], i))
                    continue
                vo = f._rv_origins(st["rv"], (), b["i"], i, frozenset())
                ok = bool(vo)
                why = ""
                for o in vo:
                    if is_call(o) and ctx.P.local_targets(f.call_at[o[0][2]]) and ctx.P.local_targets(f.call_at[o[0][2]])[0] in readers \
                            and o[1:] == (("variant", "Ok"), ("field", 0)):
                        rd = f.call_at[o[0][2]]
                        if f.origins_of_operand(rd.args[1]) != path_o:
                            ok = False
                            why = "read from another path"
                    elif o[0][0] == "agg" and o[0][4] == "blob::FileState::FileState" and len(o) == 1:
                        rv = f.blocks[o[0][2]]["stmts"][o[0][3]]["rv"]
                        ops = dict(zip(rv["kind"]["fields"], rv["ops"]))
                        to = f.origins_of_operand(ops["ticket"])
                        t_ok = bool(to)
                        for t in to:
                            if is_call(t) and ctx.P.local_targets(f.call_at[t[0][2]]) and ctx.P.local_targets(f.call_at[t[0][2]])[0] in hashers \
                                    and t[1:] == (("variant", "Ok"), ("field", 0), ("variant", "Some"), ("field", 0)):
                                if f.origins_of_operand(f.call_at[t[0][2]].args[1]) != path_o:
                                    t_ok = False
                            else:
                                t_ok = False
                        so = f.origins_of_operand(ops["timestamp"])
                        s_ok = bool(so)
                        for x in so:
                            if x[0][0] == "const":
                                continue       # fallback 0 on an unreadable mtime
                            if not (is_call(x, "system::util::get_timestamp") and x[1:] == (("variant", "Ok"), ("field", 0))):
                                s_ok = False
                                continue
                            gt = f.call_at[x[0][2]]
                            for y in f.origins_of_operand(gt.args[0]):
                                if not (is_call(y, "system::System::get_modified") and f.origins_of_operand(f.call_at[y[0][2]].args[1]) == path_o):
                                    s_ok = False
                        if not t_ok:
                            ok = False
                            why = "its ticket is not the hash just computed from this path (derives from %s)" % sorted(map(fmt_origin, to))
                        elif not s_ok:
                            ok = False
                            why = "its timestamp is not the modified time of this path"
                    elif o[0][0] == "param" and f.id.startswith("current::") or o[0][0] == "call" and "remove" in o[0][3]:
                        continue
                    else:
                        ok = False
                        why = "it derives from %s" % fmt_origin(o)
                if ok:
                    ctx.ok()
                else:
                    ctx.viol((f.id, "stored-state-not-of-this-file"), "the file state stored for a target does not describe the file now at that path (%s): the table would pair one file's modified time with another file's hash, and the mtime shortcut then returns that foreign hash" % why, f.where(b["i"], i))
    # field-by-field updates: a new timestamp without a new ticket pairs one file's mtime with another file's hash
    for (fid, base), flds in partial.items():
        f, bb, i = list(flds.values())[0]
        ctx.inst("file state updated field by field in %s" % fid, f.where(bb, i))
        if "timestamp" in flds and "ticket" not in flds:
            f2, b2, i2 = flds["timestamp"]
            ctx.viol((fid, "timestamp-without-ticket"), "the stored file state gets a new modified time but keeps the hash of the file that was there before: the mtime shortcut will return that foreign hash for the new file", f2.where(b2, i2))
        elif "ticket" in flds and "timestamp" not in flds:
            f2, b2, i2 = flds["ticket"]
            ctx.viol((fid, "ticket-without-timestamp"), "the stored file state gets a new hash but keeps the modified time recorded for the previous file", f2.where(b2, i2))
        else:
            ctx.ok()


@rule("C04.R7", floor=2)
def c04_r7(ctx):
    """What a command's process reported is what ruler judges: every production construction
    of CommandLineOutput takes `code` from ExitStatus::code() and `success` from
    ExitStatus::success() of the process output it was handed, unaltered (a defaulted code
    would turn a command killed by a signal into exit code 0, i.e. success)."""
    n = 0
    for f in ctx.P.fns.values():
        if f.body.get("in_test") or f.kind == "promoted" or f.body.get("derived") or f.body["span"]["file"].endswith("system/fake.rs"):
            continue
        for (bb, idx, rv, pl) in f.constructs("system::CommandLineOutput"):
            names = rv["kind"]["fields"]
            ctx.saw(f)
            for fld, want in (("code", "std::process::ExitStatus::code"), ("success", "std::process::ExitStatus::success")):
                n += 1
                ctx.inst("CommandLineOutput.%s in %s" % (fld, f.id), f.where(bb, idx))
                org = f.origins_of_operand(rv["ops"][names.index(fld)])
                good = bool(org)
                for o in org:
                    if not (is_call(o, want) and len(o) == 1):
                        good = False
                        continue
                    c = f.call_at[o[0][2]]
                    ao = f.origins_of_operand(c.args[0])
                    if not (ao and all(a[0][0] == "param" and a[-1] == ("field", "status") for a in ao)):
                        good = False
                if good:
                    ctx.ok()
                else:
                    ctx.viol((f.id, "exit-status-altered", fld), "CommandLineOutput.%s is not the process's own `status.%s()` (derives from %s): how a command ended would be misjudged, e.g. a command killed by a signal counted as exit code 0" % (fld, want.split("::")[-1], sorted(map(fmt_origin, org))[:3]), f.where(bb, idx))
    ctx.need(n, "a production construction of system::CommandLineOutput")


def _read_after_store(f, org, use_bb, elem, payload, store_blocks):
    """Origins of a value read at use_bb, where `elem.file_state` was overwritten with `payload`
    in a block every path to use_bb passes: what is read back from that field is the payload."""
    if not store_blocks or not f.dominated_by_blocks(use_bb, store_blocks):
        return org
    out = set()
    for o in org:
        hit = False
        for e in elem:
            pre = e + (("field", "file_state"),)
            if o[:len(pre)] == pre:
                for pl in payload:
                    out.add(pl + o[len(pre):])
                hit = True
        if not hit:
            out.add(o)
    return out


def _fresh_state_stores(f):
    """(elem origins, payload origins, blocks) of `x.file_state = <Ok payload of a state-reading call>`."""
    res = []
    for b in f.blocks:
        if b["cleanup"] or b["i"] not in f.live:
            continue
        for i, st in enumerate(b["stmts"]):
            if st["k"] == "assign" and st["place"]["proj"] and st["place"]["proj"][-1].get("name") == "file_state":
                base = f.origins_of_place({"local": st["place"]["local"], "proj": [e for e in st["place"]["proj"][:-1]]})
                val = f._rv_origins(st["rv"], (), b["i"], i, frozenset())
                if base and val and all(o[0][0] == "call" and o[1:] == (("variant", "Ok"), ("field", 0)) for o in val):
                    res.append((base, val, b["i"]))
    return res


@rule("C01.R11", floor=2)
def c01_r11(ctx):
    """The hashes handed on are hashes just taken: every ticket put into a FileStateVec by a
    function that looks at the file system (current states, states after resolution, states
    after a command) is the Ok payload of a hashing / state-reading call made in that
    function - never a ticket remembered in the blob."""
    P = ctx.P
    n = 0
    for f in P.fns.values():
        if f.body.get("in_test") or f.kind == "promoted" or f.body.get("derived"):
            continue
        if f.body["span"]["file"].endswith(("system/fake.rs", "system/real.rs")) or not effects(P, f.id):
            continue
        for c in f.calls_to("blob::FileStateVec::from_ticket_vec"):
            n += 1
            ctx.saw(f)
            ctx.inst("state vector built in %s" % f.id, c.where)
            vals = f.contents_of_vector(c.args[0])
            if vals is None:
                raise AnalysisError("idiom not recognised: the ticket vector given to from_ticket_vec in %s is not a locally built vector of pushed values" % f.id)
            # (a hash read back from a field that was overwritten with a fresh state on the way)
            for (base, val, sb) in _fresh_state_stores(f):
                stale = {o for o in vals if any(o[:len(e) + 1] == e + (("field", "file_state"),) for e in base)}
                readers = [p2 for p2 in f.calls_to("std::vec::Vec::<T, A>::push") if f.origins_of_operand(p2.args[1]) & stale]
                if stale and readers and all(f.dominated_by_blocks(p2.bb, [sb]) for p2 in readers):
                    vals = _read_after_store(f, vals, sb, base, val, [sb])
            bad = []
            for o in vals:
                ok = False
                if o[0][0] == "call" and len(o) >= 3 and o[1] == ("variant", "Ok") and o[2] == ("field", 0):
                    tg = P.local_targets(f.call_at[o[0][2]])
                    if tg and effects(P, tg[0]):
                        ok = True
                if not ok:
                    bad.append(o)
            if bad:
                ctx.viol((f.id, "remembered-hash-handed-on"), "a hash put into the state vector is not one just computed from the file (it derives from %s): dependents and the history would be given a remembered hash for a file that may have changed" % sorted(map(fmt_origin, bad))[:2], c.where)
            else:
                ctx.ok()
    ctx.need(n, "a from_ticket_vec call in a function that reads the file system")
