"""Which rules decide which property (DESIGN.md section 3), and the text that goes into
the evidence files."""
import importlib
import os

RULE_MODULES = ["r_threads", "r_work", "r_fs", "r_sort", "r_ident", "r_codec", "r_stale", "r_panics"]


def load_rule_modules():
    for m in RULE_MODULES:
        importlib.import_module(m)


PROPS = {
    "C01": {
        "rules": ["C01.R1", "C01.R2", "C01.R3", "C01.R4", "C01.R5", "C01.R6", "C01.R8", "C01.R9", "C01.R10", "C03.R4", "C03.R5", "C07.R4", "C20.R2", "C18.R1", "C18.R2", "C13.R1", "C13.R2", "C13.R3", "C12.R3", "C12.R4", "C12.R7", "C01.R11", "C15.R1", "C18.R5", "C12.R10", "C03.R3", "C18.R7", "C10.R3"],
        "explanation": "Decides the integrity of the up-to-date decision (each rule a necessary condition of C01): history looked up and recorded under this rule's sources hash; sources hash covers every upstream hash in receiver order; remembered vector index-aligned with the targets; AlreadyCorrect only under a full Ticket equality with the current hash of the same file; command skipped only when no target needs rebuilding; what is recorded is what was read from disk after a successful command; producer/consumer sub-index agreement; a status of Recovered only where a restore happened; the mtime shortcut is exact; the content hash covers the file to its end (returned only on a zero-length read). Not decided: byte equality with a from-scratch build over arbitrary histories (runtime state).",
    },
    "C02": {
        "rules": ["C02.R1", "C02.R2", "C02.R3", "C02.R4", "C02.R6", "C01.R2", "C01.R9", "C01.R10", "C13.R3", "C12.R3", "C01.R11", "C17.R1", "C12.R4"],
        "explanation": "Decides: at most one command execution per rule per build (no call site of the chain on a cycle or twice on a path); the Up-to-date path reaches no mutating System method; the command runs only on the true edge of needs-rebuild; NeedsRebuild only after the cache (and download) said NotThere; what was learned is persisted (history returned and written); the hashes handed to dependents are hashes just taken from the files, never remembered ones (a stale or empty one makes dependents miss their history and run). Not decided: that a lookup hits on a given history.",
    },
    "C03": {
        "rules": ["C03.R1", "C03.R2", "C03.R3", "C03.R4", "C03.R5", "C09.R3", "C12.R3", "C12.R4", "C12.R7", "C01.R11", "C04.R1", "C18.R1", "C01.R2", "C12.R10", "C12.R11", "C07.R3"],
        "explanation": "Decides the happens-before chain of C03 as it is visible in the code's shape: handler only on the Ok edge of the draining function; draining function returns Ok only after recv succeeded on every receiver; hashes are announced only after the handler returned Ok and are taken from its result by the sub-index stored with the sender; the handler's Ok after a command means every command line exited with status 0 (a failed producer never releases its dependents). Not decided: correctness of the announced content, acyclicity of the runtime plan. Added later: a receiver whose sender hung up without a packet is never followed by the Ok return; a position in the plan is not consulted before it exists (C12.R11); only the two renames of cache.rs put anything into the cache directory (a recovered target is complete when announced).",
    },
    "C04": {
        "rules": ["C04.R1", "C04.R2", "C04.R3", "C04.R4", "C04.R5", "C04.R6", "C08.R4", "C04.R7", "C18.R4", "C02.R6", "C06.R1"],
        "explanation": "Decides: exit status is tested (code == Some(0)) before an output is accepted; nothing is recorded for a failed execution (history written only under Ok(Ok(_)) of join, error types carry no history); cancel is forwarded on every failing path; a Cancel packet stops the dependent; one error per failed thread, none for cancelled ones; errors carry the failing path; CommandLineOutput.code / success are the process's own exit status, unaltered. Not decided: content correctness of independent rules (C01). Added later: nothing is taken out of the list of collected errors before the verdict; rule threads share no state (an independent rule cannot be made to cancel itself by another's failure).",
    },
    "C05": {
        "rules": ["C05.R1", "C03.R2", "C03.R4", "C05.R3", "C04.R3", "C05.R5", "C12.R5", "C12.R6", "C12.R4", "C05.R6", "C11.R5", "C12.R11"],
        "explanation": "Decides the channel protocol that makes build/clean terminate: exactly one packet per edge per return path, receivers drained completely, all spawns before any join and every handle joined; the sub-index a dependent is wired with is a position in the producer's own target list (an out-of-range one panics the producer's thread); every loop reachable from the entry points is a `for` over an iterator or a reviewed loop with the reason it ends (a new loop of another kind is an open obligation); Not decided: acyclicity of the runtime wait-for graph (sorter output). Added later: library calls that panic on a bad index/length (Vec::remove, copy_from_slice, split_at, ..) are census sites; irreducible cycles count as loops; compiler resume assertions do not.",
    },
    "C06": {
        "rules": ["C06.R1", "C06.R3", "C06.R3b", "C09.R3", "C12.R1", "C05.R1", "C05.R3", "C01.R2", "C18.R2", "C01.R5", "C06.R4", "C06.R5"],
        "explanation": "Non-interference argument: threads share nothing but channels and the file system (capture inventory); the only contended resource is the cache directory, on which no check-then-act may turn a lost race into a hard error; absence of a cache entry is never an error; channel results are consumed in receiver order, never arrival order; a rule whose restore lost the race for a shared entry is rebuilt (the needs-rebuild predicate is true if *any* target needs it); a restored file is never hashed through the mtime shortcut with the state of the file it replaced (which physical file - and so which mtime - a shared cache entry holds depends on the order in which sibling rules backed up identical content); rule threads create no directory or file on a test-then-create basis; Not decided: equality of final bytes. Added later: an entry taken out of the cache is not put back during the same rule's handling (C06.R5).",
    },
    "C07": {
        "rules": ["C07.R1", "C07.R2", "C07.R3", "C07.R4", "C07.R5", "C01.R6", "C01.R9", "C01.R10", "C18.R1", "C18.R2", "C15.R1", "C18.R5", "C18.R6", "C18.R7"],
        "explanation": "Decides: a file enters the cache only under the hash computed from that very path with no mutation in between; one naming scheme for writer and readers; only the two renames of cache.rs write into the cache directory; (path, assumed state) pairs come from one FileInfo; hashes are refreshed after a command; the hash function reads the file to its end and returns only on a zero-length read (an entry is never named by the hash of a prefix). Not decided: truth of remembered (hash, mtime) pairs at runtime.",
    },
    "C08": {
        "rules": ["C08.R1", "C08.R2", "C08.R3", "C08.R4", "C07.R1", "C18.R1", "C01.R10", "C07.R4", "C08.R5", "C12.R3", "C11.R2"],
        "explanation": "Decides: there is no deleting primitive (System trait method set, no std::fs outside real.rs); every rename destination is a content-named cache entry or a path proven vacant (backed up / found absent) on every path through all callers; every create_file targets a ruler state file or a vacant path, writes only go to created files; every non-AlreadyCorrect verdict is preceded by displacement; the state stored for a path describes the file at that path and is stored into the kept object (a stale pair would file a back-up under another file's name, on top of a genuine entry); a file is never hashed through the shortcut with the remembered state of a different path. Not decided: preservation of actual bytes on a real file system.",
    },
    "C09": {
        "rules": ["C09.R1", "C09.R2", "C09.R3", "C09.R4", "C07.R3", "C12.R3", "C12.R4", "C14.R3", "C14.R9", "C12.R9", "C12.R2"],
        "explanation": "Decides the provenance of every path given to a mutating System call (FileInfo.path of a blob or ruler's own directory), where FileInfos come from (only take_blob of declared targets), which blob reaches which thread (its own node's targets; leaves only hashed), and that the goal parameter reaches the goal-restricted sorter; the path strings of a rule are the lines of its sections as written (the parser pushes the line itself, nothing derived from it). Not decided: that the sorter returns exactly the ancestors (C12).",
    },
    "C10": {
        "rules": ["C10.R1", "C10.R2", "C10.R3", "C07.R1", "C09.R4", "C08.R1", "C02.R4", "C18.R2", "C01.R10", "C06.R3", "C18.R6", "C12.R3", "C02.R6"],
        "explanation": "Decides: clean backs up every existing target of every node (complete loops, no skipping path, errors returned); a missing target with a remembered hash is restored by rename from the entry named by that hash; downloaded files get their remembered permission; clean honours its goal; the remembered state clean names cache entries by always describes the file at that path (no stale (hash, mtime) pair after a restore). Not decided: end-to-end behaviour on a real file system.",
    },
    "C11": {
        "rules": ["C11.R1", "C11.R2", "C11.R4", "C11.R5", "C04.R2", "C16.R2", "C01.R10", "C18.R1", "C01.R11", "C01.R5", "C07.R2", "C10.R3"],
        "explanation": "Decides: user data moves only by single renames (no open+create copy); history written only after a successful join, the file-state table only after all joins; state files read back by a strict decoder must be replaced atomically (temp + rename); directory initialisation completes a partial creation (each create_dir guarded by the absence of that same path); an opened state file is always decoded (an empty one is damage, not `no state`); since a kill can leave the file-state table behind the history, every remembered state is validated against the file (exact-mtime shortcut) and every stored state describes the file at its path. Not decided: the disk state at each individual crash point (fault enumeration). Added later: the presence of a state file's temporary never gates the write (a stale temporary is overwritten); the version restored for a missing target is the remembered one.",
    },
    "C12": {
        "rules": ["C12.R1", "C12.R2", "C12.R3", "C12.R4", "C12.R5", "C12.R6", "C12.R7", "C12.R8", "C12.R9", "C12.R10", "C12.R11"],
        "explanation": "Decides: duplicate targets are detected for every target of every rule; the goal-restricted sort starts only at an existing goal; rules / targets / sources are sorted before numbering and no hash-order iteration reaches the plan; every source is bound to (final index of the producing rule, position among its targets) or to its leaf entry; both cyclic verdicts exist and are guarded; the cycle verdict is issued only against open (visited, on-stack) frames; a whole-graph sort starts a search at every rule and a failed search ends it; the cyclic verdicts are raised inside the search only (never against rules the goal does not reach); Not decided: that the DFS visits exactly the ancestors, once, in dependency order (algorithmic). Added later: every search the goal-restricted sort starts begins at the goal's looked-up entry; the source indices of a rule are gathered in one pass (source order); final_index is never read during a search (R11).",
    },
    "C13": {
        "rules": ["C13.R1", "C13.R2", "C13.R3", "C13.R4", "C07.R2", "C15.R8", "C12.R3"],
        "explanation": "Injectivity of the hashed serialisation as a chain of structural facts (modulo SHA-256): all three fields reach the hash completely and in order; every element is followed by a newline and every section by a delimiter line ':' while the parser never stores a line that is empty or ':' and splits on newline; targets and sources are sorted (or checked sorted), the command is not; the identity names the history file and is the hash of the very strings the node carries. Not decided: nothing of the statement beyond hash collisions; end-to-end use of the identity is C01. Added later: every input function of the hash factory hands its input to the digest on every path (no input is kept back and overtaken); targets are sorted before positions are handed out (C12.R3).",
    },
    "C14": {
        "rules": ["C14.R1", "C14.R2", "C14.R3", "C14.R4", "C14.R5", "C14.R6", "C14.R7", "C14.R8", "C14.R9", "C14.R10"],
        "explanation": "Decides: the parser's panic obligations (bounds checks guarded by length tests, counters); every state-machine error carries the file name and a line counter that starts at 1 and advances exactly once per line; the transition table read back from the code equals the documented one (4 modes x {empty, ':', other} and the end-of-input verdicts); bundle nodes are merged through a BTreeMap (canonical order, duplicates merged, kind clash rejected); the bundle layer's rejections exist and are guarded; indentation is measured in tabs only (level/text never derive from a whitespace-general operation); no byte offset into a string derives from a character count; the targets and sources of a rule are always what the bundle parser yields for their section; a shared prefix buffer in the bundle expander is restored to a saved length only; the targets section is judged before the sources section; Not decided: equality of the accepted language / yielded strings with the grammar for all texts. Added later: no line is dropped from the input before the state machine counts it.",
    },
    "C15": {
        "rules": ["C15.R1", "C15.R2", "C15.R3", "C15.R4", "C15.R5", "C15.R8"],
        "explanation": "Decides: the chunk loop feeds the SHA-256 digest exactly buffer[..n] of each read and returns only at end of file; the directory hash covers the listing and every entry's own hash; encoder alphabet and decoder table are mutual inverses over exactly the 62 alphanumerics with consistent base, padding, endianness and length; the decoder rejects wrong length, foreign characters and values over 32 bytes; the codec's panic obligations. Not decided: correctness of rust-crypto / num-bigint; equality with an independent SHA-256 (runtime comparison). Added later: the entry loop of the directory hasher is left early only towards an error; inputs reach the digest at once and in call order (R8).",
    },
    "C16": {
        "rules": ["C16.R1", "C16.R2", "C16.R3", "C16.R4", "C16.R5", "C16.R6", "C16.R7"],
        "explanation": "Decides: writer and reader of each state file instantiate bincode with the same type through the default entry points; a decode error is an error all the way up to the entry points (never a default value); no panic-capable local site is reachable from the state readers; the bytes decoded are the file's; the derived encoders write every field unconditionally and the derived decoders default none; the serialised bytes go to the file through write_all (a short write is never taken for a complete one). Not decided: bincode's behaviour on arbitrary, truncated or bit-flipped bytes (dependency semantics). Added later: the decoder's call-backs into the crate (Deserialize impls, visitors, try_from conversions) are roots of the no-panic census; library calls that panic on an out-of-range argument are census sites.",
    },
    "C17": {
        "rules": ["C17.R1", "C17.R2", "C17.R3", "C04.R2", "C07.R5", "C18.R1", "C02.R6", "C01.R9", "C01.R11", "C12.R3", "C12.R4"],
        "explanation": "Decides: insert never overwrites (only on the miss edge of the same key) and maps Contradiction to Err; every successful re-execution passes through insert; exactly the indices whose tickets differ are reported and mapped to paths[i] of the refreshed blob; the earlier record cannot leave through an error; the hashes compared after a re-execution are those of the files just written (the refresh reuses a remembered hash only under exact mtime equality); the history is not rooted in the cache directory; the record of every rule that finished is written back whatever happened to other rules of the same build (an unrecorded re-execution cannot be contradicted later). Not decided: whether a given history forces re-execution. Added later: nothing is ever taken out of the map of remembered results; the sub-index a dependent is bound with is the declared source's own (C12.R4).",
    },
    "C18": {
        "rules": ["C18.R1", "C18.R2", "C18.R3", "C01.R6", "C01.R9", "C01.R10", "C11.R2", "C18.R4", "C18.R5", "C01.R11", "C16.R7", "C18.R6", "C07.R1", "C18.R7"],
        "explanation": "Decides: the shortcut is taken only under exact equality of the file's own mtime with the remembered one; the table is refreshed whenever a command ran; a restored file is never hashed through the shortcut with the state of the file it replaced, and always gets a fresh stored state (unconditionally, not only when the mtimes differ); different modification times give different timestamp numbers (whole seconds scaled by the unit of the sub-second part); Not decided: equality of paired runs over all histories. Added later: the number a modification time is stored as is one-to-one (R7: 1_000_000*secs + subsec_micros, every part once).",
    },
    "C19": {
        "rules": ["C19.R1", "C19.R2", "C19.R3", "C19.R4", "C19.R5", "C19.R6", "C07.R2", "C15.R4", "C01.R4", "C19.R7", "C07.R1", "C18.R1", "C12.R3"],
        "explanation": "Decides: both endpoints decode every request name as a ticket before any file-system access and answer 404 otherwise; the only file-system entry points reachable from a request take a Ticket and build `<ruler dir>/<43 alphanumerics>`; 200 only on the success edges of lookup and read, every lookup failure is 404, bodies are the opened entry's bytes / the newline-joined hashes of the looked-up vector; request handlers' panic obligations; the lookup key type compares all 32 bytes (derived equality on Ticket); a cache entry is opened for serving only after it was found to be a regular file; the objects the endpoints look things up through carry no memo (no container / interior-mutability field), so answers come from the files as they are now; Not decided: that served bytes equal the requested content at runtime (C07); warp's routing.",
    },
    "C20": {
        "rules": ["C20.R1", "C20.R2", "C20.R3", "C20.R4", "C04.R5", "C02.R2", "C04.R1", "C17.R3"],
        "explanation": "Decides: each status variant is constructed only where its cause happened (command executed / restore done / download done / effect-free path); status lines are printed only under Ok(Ok(_)) of join; one error per failed rule; CommandExecuted is only built from outputs whose every command line passed the exit-status test. Not decided: nothing structural beyond the listed rules.",
    },
}


PC_PROPS = {"C08", "C05", "C06", "C12", "C02", "C10"}
_pc_cache = {}


def positive_controls(pid, tier, here):
    """Zero-expected clauses must fire on fixtures/positive (analysed by the same driver)."""
    if pid not in PC_PROPS:
        return {"fired": [], "errors": []}
    import subprocess
    import hashlib
    from lib.mir import load
    import zero
    src = os.path.join(here, "fixtures", "positive")
    h = hashlib.sha256()
    for fn in ("Cargo.toml", "src/main.rs"):
        with open(os.path.join(src, fn), "rb") as f:
            h.update(f.read())
    with open(os.path.join(here, "engine", "driver", "src", "main.rs"), "rb") as f:
        h.update(f.read())
    prefix = os.path.join(here, ".cache", "facts", "posctl-" + h.hexdigest()[:12])
    if not os.path.exists(prefix + ".json"):
        env = dict(os.environ, RULER_FACTS_CRATE="posctl")
        env.pop("RULER_FACTS_TARGET", None)
        r = subprocess.run([os.path.join(here, "engine", "extract.sh"), src, prefix], env=env, stdout=subprocess.PIPE, stderr=subprocess.STDOUT, text=True)
        if r.returncode != 0:
            return {"fired": [], "errors": ["cannot analyse the positive-control fixture: " + r.stdout.strip()[-200:]]}
    fired, errors = zero.run_positive_controls(load(prefix + ".json"))
    return {"fired": fired, "errors": errors}


NOT_APPLICABLE = {}
SOURCE_COMMITS = []   # hook commits only (none: nothing in /repo is instrumented)
FIX_COMMITS = ["f7f8347 fix: sort_once reported acyclic graphs as CircularDependence (C12)",
               "acad125 fix: no-rebuild path reported the pre-restore hash of a recovered target (C18, C01)",
               "14cd7e3 fix: losing the race for a cache entry made the rule fail (C06)",
               "fe67da3 fix: state files were truncated in place (C11)"]
