"""Which rules decide which property (DESIGN.md section 3), and the text that goes into
the evidence files."""
import importlib
import os

RULE_MODULES = ["r_threads"]


def load_rule_modules():
    for m in RULE_MODULES:
        importlib.import_module(m)


PROPS = {
    "C03": {
        "rules": ["C03.R1", "C03.R2", "C03.R3", "C03.R5"],
        "explanation": "Decides the happens-before chain of C03 as it is visible in the code's shape: handler only on the Ok edge of the draining function; draining function returns Ok only after recv succeeded on every receiver; hashes are announced only after the handler returned Ok and are taken from its result by the sub-index stored with the sender. Not decided: correctness of the announced content, acyclicity of the runtime plan.",
    },
    "C04": {
        "rules": ["C04.R2", "C04.R3", "C04.R4", "C04.R5"],
        "explanation": "Decides: nothing is recorded for a failed execution (history written only under Ok(Ok(_)) of join); cancel is forwarded on every failing path; a Cancel packet stops the dependent; one error per failed thread, none for cancelled ones. Not decided: content correctness of independent rules (C01).",
    },
    "C05": {
        "rules": ["C05.R1", "C03.R2", "C05.R3", "C04.R3"],
        "explanation": "Decides the channel protocol that makes build/clean terminate: exactly one packet per edge per return path, receivers drained completely, all spawns before any join and every handle joined. Not decided: acyclicity of the runtime wait-for graph (sorter output).",
    },
}


def positive_controls(pid, tier, here):
    return {"fired": [], "errors": []}

NOT_APPLICABLE = {}
SOURCE_COMMITS = []
