"""Rules about rule identity (C13) and the rules-file parser (C14): C13.R1-R4, C14.R2-R5."""
from engine import rule
from lib.mir import AnalysisError, fmt_origin, erase_generics
from strings import _const_bytes_of

INPUT_STR = "ticket::TicketFactory::input_str"
FROM_STRINGS = "ticket::Ticket::from_strings"
SORT = "std::slice::<impl [T]>::sort"
PERR = "rule::ParseError"
BERR = "bundle::ParseError"


def is_call(o, path=None):
    return o[0][0] == "call" and (path is None or erase_generics(o[0][3]) == erase_generics(path))


def prod(P):
    return [f for f in P.fns.values() if not f.body.get("in_test") and f.kind != "promoted" and not f.body.get("derived")]


def _serialiser(ctx):
    f = ctx.P.fn(FROM_STRINGS)
    ctx.saw(f)
    return f


def _sections(ctx, f):
    """Structure of the serialiser: [(loop, elem_call, nl_call, delim_call)] in order."""
    ins = f.calls_to(INPUT_STR)
    lps = f.loops()
    lps.sort(key=lambda lp: len(f.dominators().get(lp["header"], ())))
    return ins, lps


@rule("C13.R1", floor=6)
def c13_r1(ctx):
    """Field coverage: Rule::get_ticket passes targets, sources and command (or sorted clones
    of the first two) to the serialiser, in this order; the serialiser iterates each of its
    three parameters completely and feeds every element to TicketFactory::input_str of the
    one factory whose result it returns; nothing else is fed."""
    f = _serialiser(ctx)
    ins, lps = _sections(ctx, f)
    ctx.need(len(f.body["inputs"]) == 3, "three parameters of the serialiser")
    fac = None
    seen_params = []
    for lp in lps:
        if not all(o[0][0] == "param" for o in lp["iter"]):
            continue
        pk = {o[0][1] for o in lp["iter"]}
        ctx.inst("serialiser loop over parameter %s" % sorted(pk), f.where(lp["header"]))
        if len(pk) != 1 or any(st[0] == "truncate" for o in lp["iter"] for st in o[1:]) or \
                not all(all(st[0] in ("iter", "adapt") for st in o[1:]) for o in lp["iter"]):
            ctx.viol((f.id, "section-truncated", tuple(sorted(pk))), "a section of the rule is not hashed completely (iterates %s)" % sorted(map(fmt_origin, lp["iter"])), f.where(lp["header"]))
            continue
        k = pk.pop()
        seen_params.append(k)
        el = [c for c in ins if c.bb in lp["body"] and f.origins_of_operand(c.args[1]) == lp["elem"]]
        if len(el) != 1 or not f.every_iteration_calls(lp, [el[0].bb]) or f.loop_exits(lp):
            ctx.viol((f.id, "element-not-hashed", k), "an element of parameter %d can miss the identity hash" % k, f.where(lp["header"]))
            continue
        v = f.vars_of_operand(el[0].args[0])
        if fac is None:
            fac = v
        elif fac != v:
            ctx.viol((f.id, "two-factories", k), "sections are hashed into different factories", el[0].where)
        ctx.ok()
    if seen_params != [1, 2, 3]:
        others = [lp for lp in lps if not (lp["iter"] and all(o[0][0] == "param" for o in lp["iter"]))]
        if len(seen_params) < 3 and others:
            # sections walked through some other structure (an array of the three lists, a
            # helper taking the section): this reader cannot see which list goes where
            raise AnalysisError("idiom not recognised: %s does not iterate its three parameters in three loops of its own (%d loop(s) over something else)" % (f.id, len(others)))
        ctx.viol((f.id, "section-order"), "the serialiser does not hash parameters 1,2,3 each once in order (hashes %s)" % seen_params, f.where(0))
    # result returned is that factory's
    res = f.calls_to("ticket::TicketFactory::result")
    if len(res) != 1 or f.vars_of_operand(res[0].args[0]) != fac or f.origins_of_place({"local": 0, "proj": []}) != f._call_origins(res[0], (), frozenset()):
        ctx.viol((f.id, "identity-not-returned"), "the ticket returned is not the result of the factory all sections were fed to", f.where(0))
    for c in f.calls:
        if c.path.startswith("ticket::TicketFactory::input_") and c.path != INPUT_STR:
            ctx.viol((f.id, "foreign-input", c.name), "something other than strings is fed into the identity", c.where)
    # callers: fields in order
    callers = [c for c in ctx.P.callers.get(f.id, []) if not c.fn.body.get("in_test")]
    ctx.need(callers, "a caller of the serialiser")
    for c in callers:
        g = c.fn
        for i, fld in enumerate(("targets", "sources", "command")):
            ctx.inst("%s passed at %s" % (fld, g.id), c.where)
            ao = g.origins_of_operand(c.args[i])
            direct = ao and all(o == (("param", 1), ("field", fld)) for o in ao)
            if direct:
                ctx.ok()
                continue
            # a sorted clone: a user variable defined as clone(self.fld), on which sort() was called
            vo = g.vars_of_operand(c.args[i])
            ok = False
            for v in vo:
                if v[0][0] == "var":
                    src = g._origins(v[0][1], (), frozenset())
                    if src and all(o == (("param", 1), ("field", fld)) for o in src):
                        ok = True
            if ok:
                ctx.ok()
            else:
                ctx.viol((g.id, "field-not-in-identity", fld), "the rule's %s do not reach the identity hash in position %d (got %s)" % (fld, i + 1, sorted(map(fmt_origin, ao))), c.where)


@rule("C13.R2", floor=6)
def c13_r2(ctx):
    """Unambiguous framing: after each element exactly "\\n" is fed; after each section a
    constant that ends with "\\n" and, split at "\\n", contains the line ":"; in the parser
    every string pushed into the three line vectors is a piece of content.split('\\n') on the
    arm that is neither "" nor ":" (so no element contains '\\n' or equals ":")."""
    f = _serialiser(ctx)
    ins, lps = _sections(ctx, f)
    delims = []
    for lp in lps:
        if not all(o[0][0] == "param" for o in lp["iter"]):
            continue
        inside = [c for c in ins if c.bb in lp["body"]]
        el = [c for c in inside if f.origins_of_operand(c.args[1]) == lp["elem"]]
        nl = [c for c in inside if c not in el]
        ctx.inst("element terminator", nl[0].where if nl else f.where(lp["header"]))
        ok = len(el) == 1 and len(nl) == 1
        if ok:
            b = _const_bytes_of(f, nl[0].args[1])
            ok = b == b"\n" and f.dominated_by_blocks(nl[0].bb, [el[0].bb]) and f.every_iteration_calls(lp, [nl[0].bb])
        if not ok:
            ctx.viol((f.id, "element-terminator"), "elements of a section are not each followed by exactly \"\\n\": two different lists can serialise to the same text", f.where(lp["header"]))
        else:
            ctx.ok()
        # delimiter after the loop
        after = [c for c in ins if c.bb not in lp["body"] and f.dominated_by_edges(c.bb, {lp["none"]})]
        after.sort(key=lambda c: len(f.dominators().get(c.bb, ())))
        first = after[0] if after else None
        ctx.inst("section delimiter", first.where if first else f.where(lp["header"]))
        b = _const_bytes_of(f, first.args[1]) if first else None
        nxt = [l for l in lps if l["header"] != lp["header"] and lp["header"] in f.dominators().get(l["header"], ())]
        before_next = first is not None and all(f.dominated_by_blocks(l["header"], [first.bb]) for l in nxt)
        if b is None or not b.endswith(b"\n") or b":" not in b.split(b"\n") or not before_next:
            ctx.viol((f.id, "section-delimiter"), "sections are not separated by a delimiter line \":\" (got %r): a string can move across a section boundary without changing the identity" % (b,), first.where if first else f.where(lp["header"]))
        else:
            ctx.ok()
            delims.append(b)
    # parser side
    p = _parser(ctx)
    tbl = parser_table(ctx, p)
    for mode, row in tbl["table"].items():
        for cls, eff in row.items():
            for e in eff:
                if e[0] == "push" and cls != "other":
                    ctx.viol((p.id, "push-of-delimiter-line", mode, cls), "a line that is %s can be stored as a path/command string" % ("empty" if cls == "empty" else "\":\""), p.where(0))
    for e in tbl["pushes"]:
        ctx.inst("line push (%s)" % e[1], e[2])
        ctx.ok()
    if not tbl["split_newline"]:
        ctx.viol((p.id, "lines-not-split-on-newline"), "the parser's lines are not content.split('\\n'): an element could contain a newline", p.where(0))


def _parser(ctx):
    fs = [f for f in prod(ctx.P) if f.constructs(PERR, "UnexpectedExtraColon")]
    ctx.need(len(fs) == 1, "the rules-file state machine")
    ctx.saw(fs[0])
    return fs[0]


def _same_storage(p, v):
    """v, and the same component of every variable whose whole value was moved into v's
    variable (`let finished = mem::replace(&mut draft, ..)`: finished.0 is draft.0)."""
    out = {v}
    if v and v[0][0] == "var":
        fam = p.var_family({"k": "copy", "place": {"local": v[0][1], "proj": []}})
        for o in fam:
            if o[0][0] == "var" and len(o) == 1:
                out.add(o + tuple(v[1:]))
    return out


def parser_table(ctx, p):
    """Read the state machine back as a table: mode x {empty, colon, other} -> effects."""
    if getattr(ctx, "_ptable", None) is not None:
        return ctx._ptable
    lps = p.loops()
    ctx.need(lps, "line loop")
    lp = max(lps, key=lambda l: len(l["body"]))
    elem = lp["elem"]
    if any(("adapt", "enumerate") in o for o in lp["iter"]):
        # `for (index, line) in lines.into_iter().enumerate()`: the line is the second component
        elem = {e + (("field", 1),) for e in lp["elem"]}
    # mode variable: the local of the enum switched on right after the Some edge
    mode_sw = None
    for bb in sorted(lp["body"]):
        info = p.switch_info(bb)
        if info and info["kind"] == "variant" and info.get("adt", "").endswith("::Mode") and not p.is_drop_switch(bb):
            mode_sw = info
            break
    ctx.need(mode_sw is not None, "switch on the parser mode")
    mode_local = mode_sw["place"]["local"]
    mv = p.vars_of_place(mode_sw["place"])
    if len(mv) == 1 and next(iter(mv))[0][0] == "var" and len(next(iter(mv))) == 1:
        # `match (&mode, line)`: the value switched on is the variable behind the tuple
        mode_local = next(iter(mv))[0][1]
    names = p.variant_names(mode_sw["adt"])
    # roles of the three vectors: arguments of Rule::new
    rn = p.calls_to("rule::Rule::new")
    ctx.need(len(rn) == 1, "Rule::new call")
    rn = rn[0]
    roles = {}
    for i, nm in enumerate(("targets", "sources")):
        for o in p.origins_of_operand(rn.args[i]):
            if is_call(o, "bundle::PathBundle::get_path_strings"):
                gp = p.call_at[o[0][2]]
                for o2 in p.origins_of_operand(gp.args[0]):
                    if is_call(o2, "bundle::PathBundle::parse_lines"):
                        pl = p.call_at[o2[0][2]]
                        for v in p.vars_of_operand(pl.args[0]):
                            for v2 in _same_storage(p, v):
                                roles[v2] = nm
    for v in p.vars_of_operand(rn.args[2]):
        for v2 in _same_storage(p, v):
            roles[v2] = "command"
    latch = [bb for bb in lp["body"] if lp["header"] in p.succ[bb] and bb != lp["header"]]
    pushes = []

    def effects_of_block(bb):
        eff = set()
        b = p.blocks[bb]
        for i, s in enumerate(b["stmts"]):
            if s["k"] == "assign" and s["place"]["local"] == mode_local and not s["place"]["proj"]:
                got = set()
                for o in p._rv_origins(s["rv"], (), bb, i, frozenset()):
                    if o[0][0] == "agg":
                        got.add(o[0][4].split("::")[-1])
                if len(got) > 1:
                    # `mode = next_mode(..)?`: the new mode is a value computed elsewhere and merged
                    # here; which one it is depends on the path taken there, which this
                    # block-by-block reading does not follow
                    raise AnalysisError("idiom not recognised: the parser mode is assigned a value that can be any of %s at %s (the transition table is read from direct assignments of one mode)" % (sorted(got), p.where(bb, i)))
                for nm2 in got:
                    eff.add(("mode", nm2))
            if s["k"] == "assign" and s["rv"]["k"] == "aggregate" and s["rv"]["kind"]["k"] == "adt" and s["rv"]["kind"]["adt"] == PERR:
                eff.add(("err", s["rv"]["kind"]["variant"]))
        if bb in p.call_at:
            c = p.call_at[bb]
            if erase_generics(c.path) == "std::vec::Vec::push":
                vs = p.vars_of_operand(c.args[0])
                role = {roles.get(v) for v in vs}
                src = p.origins_of_operand(c.args[1])
                if src == elem and len(role) == 1 and None not in role:
                    r = role.pop()
                    eff.add(("push", r))
                    pushes.append(("push", r, c.where))
                elif any(isinstance(r, str) for r in role if r):
                    eff.add(("push-foreign", sorted(map(fmt_origin, src))[0] if src else "?"))
                elif "rule::Rule" in p.local_ty(c.args[1]["place"]["local"])["s"]:
                    eff.add(("emit",))
        return eff

    def str_test(bb):
        """If bb ends in `eq(line, CONST)` return (const bytes, true target, false target)."""
        if bb not in p.call_at:
            return None
        c = p.call_at[bb]
        if c.path not in ("std::cmp::PartialEq::eq", "std::cmp::PartialEq::ne") or c.self_ty not in ("str", "&str", "&&str"):
            return None
        if p.origins_of_operand(c.args[0]) != elem:
            return None
        b = _const_bytes_of(p, c.args[1])
        if b is None:
            return None
        t = p.bool_edges_of_call(c, True)
        fl = p.bool_edges_of_call(c, False)
        if len(t) != 1 or len(fl) != 1:
            return None
        if c.path.endswith("ne"):
            t, fl = fl, t
        return b, next(iter(t))[1], next(iter(fl))[1], next(iter(t))[0]

    def classes(conds):
        cl = {"empty", "colon", "other"}
        for (b, truth) in conds:
            if b == b"":
                cl &= {"empty"} if truth else {"colon", "other"}
            elif b == b":":
                cl &= {"colon"} if truth else {"empty", "other"}
            else:
                if truth:
                    cl &= set()
        return cl

    def mode_switch_at(bb):
        """If bb switches on the parser mode: {variant name -> target} (+ "otherwise")."""
        info = p.switch_info(bb)
        if not info or info["kind"] != "variant" or not (info.get("adt") or "").endswith("::Mode") or p.is_drop_switch(bb):
            return None
        pv = p.vars_of_place(info["place"])
        if not (len(pv) == 1 and next(iter(pv)) == (("var", mode_local),)) and info["place"]["local"] != mode_local:
            return None
        out = {names.get(v, str(v)): d for v, d in info["targets"]}
        out["otherwise"] = info["otherwise"]
        return out

    def walk(bb, conds, eff, seen, out, mode=None):
        if bb in seen:
            return
        seen = seen | {bb}
        eff = eff | effects_of_block(bb)
        if bb in latch or bb == lp["header"] or bb not in lp["body"] and not p.succ[bb]:
            out.append((conds, eff))
            return
        if mode is not None:
            # the mode is given: a test of the mode variable has one outcome (the mode is only
            # assigned after it was last tested on every path the reference table has)
            ms = mode_switch_at(bb)
            if ms is not None and not any(e2[0] == "mode" for e2 in eff):
                walk(ms.get(mode, ms["otherwise"]), conds, eff, seen, out, mode)
                return
        st = str_test(bb)
        if st is not None:
            b, t, fl, swbb = st
            walk(t, conds + [(b, True)], eff, seen | {swbb}, out, mode)
            walk(fl, conds + [(b, False)], eff, seen | {swbb}, out, mode)
            return
        succ = p.succ[bb]
        if not succ:
            out.append((conds, eff))
            return
        if len(succ) == 1:
            walk(succ[0], conds, eff, seen, out, mode)
            return
        # other branching (results of bundle parsing, drop flags): union of the arms
        acc = []
        for d in succ:
            walk(d, conds, eff, seen, acc, mode)
        merged = {}
        for (cd, ef) in acc:
            key = tuple(cd)
            merged.setdefault(key, set()).update(ef)
        for key, ef in merged.items():
            out.append((list(key), ef))

    table = {}
    for v, nm in sorted(names.items()):
        # one walk per mode, from the start of the loop body: the order in which mode and line
        # are tested (nested matches, one match on the pair, a shared arm for several modes)
        # does not matter
        out = []
        walk(lp["some"][1], [], set(), set(), out, nm)
        row = {}
        for (conds, eff) in out:
            for cl in classes(conds):
                row.setdefault(cl, set()).update(eff)
        table[nm] = row
    # end of input
    end = {}
    end_sw = None
    for bb in p.reach([lp["none"][1]]):
        info = p.switch_info(bb)
        if info and info["kind"] == "variant" and not p.is_drop_switch(bb) and \
                (info.get("place", {}).get("local") == mode_local or
                 (info.get("adt", "").endswith("::Mode") and info.get("place") and p.vars_of_place(info["place"]) == {(("var", mode_local),)})):
            # (also the mode handed to an inlined `mode.at_end_of_file(..)`: a copy of the variable)
            end_sw = info
            break
    if end_sw is not None:
        for v, d in end_sw["targets"]:
            eff = set()
            for bb in p.reach([d]):
                for i, s in enumerate(p.blocks[bb]["stmts"]):
                    if s["k"] == "assign" and s["rv"]["k"] == "aggregate" and s["rv"]["kind"]["k"] == "adt":
                        if s["rv"]["kind"]["adt"] == PERR:
                            eff.add(("err", s["rv"]["kind"]["variant"]))
                        if s["rv"]["kind"]["adt"] == "std::result::Result" and s["rv"]["kind"]["variant"] == "Ok" and \
                                (s["place"]["local"] == 0 or "rule::Rule" in p.local_ty(s["place"]["local"])["s"]):
                            eff.add(("ok",))
            end[names.get(v, str(v))] = eff
    # where do the lines come from
    split_nl = False
    for o in lp["iter"]:
        root = o[0]
        if root[0] == "param" and any(st == ("iter", "split") for st in o[1:]) and not any(st[0] == "truncate" for st in o[1:]):
            # `for line in content.split('\n')`: the split iterator walked directly
            for c in p.calls:
                if c.path == "core::str::<impl str>::split" and c.args[1]["k"] == "const" and c.args[1].get("bits") == "10":
                    split_nl = True
        if root[0] == "call" and erase_generics(root[3]) == "std::iter::Iterator::collect":
            cc = p.call_at[root[2]]
            for o2 in p.origins_of_operand(cc.args[0]):
                if o2[0][0] == "param" and any(st == ("iter", "split") for st in o2[1:]):
                    # find the split call and its separator
                    for c in p.calls:
                        if c.path == "core::str::<impl str>::split" and c.args[1]["k"] == "const" and c.args[1].get("bits") == "10":
                            split_nl = True
    truncated = set()

    def _unnumbered_truncations(o):
        out = set()
        for st in o[1:]:
            if st == ("adapt", "enumerate"):
                break       # numbered before anything is taken out
            if st[0] == "truncate":
                out.add(st[1])
        return out
    for o in lp["iter"]:
        truncated |= _unnumbered_truncations(o)
        if o[0][0] == "call" and erase_generics(o[0][3]) == "std::iter::Iterator::collect":
            for o2 in p.origins_of_operand(p.call_at[o[0][2]].args[0]):
                truncated |= _unnumbered_truncations(o2)
    res = {"table": table, "end": end, "pushes": pushes, "split_newline": split_nl, "loop": lp, "mode_local": mode_local, "truncated": truncated}
    ctx._ptable = res
    return res


REFERENCE_TABLE = {
    "Pending": {"empty": set(), "colon": {("err", "UnexpectedExtraColon")}, "other": {("mode", "Targets"), ("push", "targets")}},
    "Targets": {"empty": {("err", "UnexpectedEmptyLine")}, "colon": {("mode", "Sources")}, "other": {("push", "targets")}},
    "Sources": {"empty": {("err", "UnexpectedEmptyLine")}, "colon": {("mode", "Command")}, "other": {("push", "sources")}},
    "Command": {"empty": {("err", "UnexpectedEmptyLine")}, "colon": {("mode", "Pending"), ("emit",), ("err", "BundleError")}, "other": {("push", "command")}},
}
REFERENCE_END = {"Pending": {("ok",)}, "Targets": {("err", "UnexpectedEndOfFileMidTargets")},
                 "Sources": {("err", "UnexpectedEndOfFileMidSources")}, "Command": {("err", "UnexpectedEndOfFileMidCommand")}}


@rule("C14.R3", floor=16)
def c14_r3(ctx):
    """The transition table is the documented one: the nested switch (mode, then the str
    comparisons with "" and ":") is read back as a table and compared with the reference
    written from the README, including the end-of-input verdict per mode."""
    p = _parser(ctx)
    t = parser_table(ctx, p)
    for mode, ref in REFERENCE_TABLE.items():
        row = t["table"].get(mode)
        if row is None:
            ctx.viol((p.id, "mode-missing", mode), "parser mode %s is not handled" % mode, p.where(0))
            continue
        for cls, want in ref.items():
            ctx.inst("(%s, %s)" % (mode, cls))
            got = row.get(cls)
            if got is None:
                ctx.viol((p.id, "transition-missing", mode, cls), "no transition for (%s, %s line)" % (mode, cls), p.where(0))
            elif got != want:
                ctx.viol((p.id, "transition", mode, cls), "in mode %s a line that is %s does %s, the documented format requires %s" % (mode, {"empty": "empty", "colon": "\":\"", "other": "anything else"}[cls], sorted(got), sorted(want)), p.where(0))
            else:
                ctx.ok()
    for mode, want in REFERENCE_END.items():
        ctx.inst("end of input in %s" % mode)
        got = t["end"].get(mode)
        if got != want:
            ctx.viol((p.id, "end-of-input", mode), "at end of input in mode %s the parser yields %s, expected %s" % (mode, sorted(got or []), sorted(want)), p.where(0))
        else:
            ctx.ok()


def _plus_one_of(p, op):
    """If operand = X + 1 (checked or not): the operand X; else None."""
    for o in p.origins_of_operand(op):
        if o[0][0] == "binop" and o[0][4] in ("AddWithOverflow", "Add"):
            st = p.blocks[o[0][2]]["stmts"][o[0][3]]["rv"]
            a, b2 = st["a"], st["b"]
            if b2["k"] == "const" and b2.get("bits") == "1":
                return a
            if a["k"] == "const" and a.get("bits") == "1":
                return b2
    return None


def _enumerate_line_numbers(ctx, p, lp):
    """The other way to number lines: `for (index, line) in lines.into_iter().enumerate()` with
    `index + 1` inside the loop and `lines.len() + 1` after it.  Returns True if the parser is
    written that way (and judges it); False if it uses a counter variable; raises if neither."""
    if not any(("adapt", "enumerate") in o for o in lp["iter"]):
        return False
    idx_o = {e + (("field", 0),) for e in lp["elem"]}
    src = {tuple(st for st in o if st[0] not in ("iter", "adapt")) for o in lp["iter"]}
    good = True
    n = 0
    for var in ("UnexpectedEmptyLine", "UnexpectedExtraColon", "UnexpectedEndOfFileMidTargets", "UnexpectedEndOfFileMidSources", "UnexpectedEndOfFileMidCommand"):
        sites = p.constructs(PERR, var)
        if not sites:
            ctx.viol((p.id, "error-kind-missing", var), "ParseError::%s is never produced" % var, p.where(0))
        for (bb, idx, rv, pl) in sites:
            ctx.inst(var, p.where(bb, idx))
            n += 1
            fo = p.origins_of_operand(rv["ops"][0])
            if not all(o == (("param", 1),) for o in fo):
                ctx.viol((p.id, "error-without-file", var), "the error does not name the file", p.where(bb, idx))
                continue
            x = _plus_one_of(p, rv["ops"][1])
            if x is None:
                raise AnalysisError("idiom not recognised: the line of ParseError::%s is neither a counter variable nor `index + 1` / `len + 1`" % var)
            xo = p.origins_of_operand(x)
            if p.dominated_by_edges(bb, {lp["some"]}):
                if xo == idx_o:
                    ctx.ok()
                else:
                    good = False
                    ctx.viol((p.id, "error-line-not-this-line", var), "the line reported is not the (1-based) number of the line being read", p.where(bb, idx))
            else:
                is_len = xo and all(o[0][0] == "call" and o[0][3].split("::")[-1] == "len" and len(o) == 1 for o in xo)
                if is_len and all({tuple(st for st in v if st[0] not in ("iter", "adapt")) for v in p.origins_of_operand(p.call_at[o[0][2]].args[0])} == src for o in xo):
                    ctx.ok()
                else:
                    good = False
                    ctx.viol((p.id, "eof-line-not-count-plus-one", var), "the end-of-input error does not name the line after the last one", p.where(bb, idx))
    ctx.inst("line numbers from enumerate()", p.where(lp["header"]))
    if good:
        ctx.ok()
    return True


@rule("C14.R2", floor=7)
def c14_r2(ctx):
    """State-machine errors carry file and 1-based line: each non-bundle ParseError is built
    from the filename parameter and the line counter; the counter starts at the constant 1
    and is incremented by exactly 1 exactly once on every path back to the loop header."""
    p = _parser(ctx)
    t = parser_table(ctx, p)
    lp = t["loop"]
    counter = None
    if t["truncated"] - {"peekable"}:
        # (the numbering counts the lines the loop sees: if some were taken out before, the
        #  numbers no longer are positions in the file)
        ctx.viol((p.id, "lines-dropped-before-counting"), "lines are taken out of the input (%s) before the state machine counts them: every error is reported at a line number that is not the line's position in the file" % ", ".join(sorted(t["truncated"])), p.where(lp["header"]))
    if _enumerate_line_numbers(ctx, p, lp):
        return
    for var in ("UnexpectedEmptyLine", "UnexpectedExtraColon", "UnexpectedEndOfFileMidTargets", "UnexpectedEndOfFileMidSources", "UnexpectedEndOfFileMidCommand"):
        sites = p.constructs(PERR, var)
        if not sites:
            ctx.viol((p.id, "error-kind-missing", var), "ParseError::%s is never produced" % var, p.where(0))
        for (bb, idx, rv, pl) in sites:
            ctx.inst(var, p.where(bb, idx))
            fo = p.origins_of_operand(rv["ops"][0])
            lo = p.vars_of_operand(rv["ops"][1])
            if not all(o == (("param", 1),) for o in fo):
                ctx.viol((p.id, "error-without-file", var), "the error does not name the file", p.where(bb, idx))
                continue
            if len(lo) != 1 or next(iter(lo))[0][0] != "var":
                ctx.viol((p.id, "error-without-line", var), "the error's line is not the line counter", p.where(bb, idx))
                continue
            v = next(iter(lo))[0][1]
            if len(next(iter(lo))) > 1:
                # `position.line_number` of a struct that travels with the file name: the stores
                # into a field of a local struct are not followed by the counter reader
                raise AnalysisError("idiom not recognised: the line counter of %s is kept in a field of a local struct (%s)" % (p.id, fmt_origin(next(iter(lo)))))
            if counter is None:
                counter = v
            if v != counter:
                ctx.viol((p.id, "error-other-counter", var), "errors use different counters", p.where(bb, idx))
            else:
                ctx.ok()
    ctx.need(counter is not None, "line counter")
    inits = []
    incs = []
    for (kind, bb, idx, place, payload) in p.defs.get(counter, ()):
        if kind != "assign":
            ctx.viol((p.id, "counter-assigned-by-call"), "line counter assigned from a call", p.where(bb))
            continue
        if payload["k"] == "use" and payload["op"]["k"] == "const":
            inits.append((bb, payload["op"].get("bits")))
        else:
            # _8 = move _106.0 where _106 = AddWithOverflow(copy _8, 1)
            org = p._rv_origins(payload, (), bb, idx, frozenset())
            good = False
            for o in org:
                if o[0][0] == "binop" and o[0][4] in ("AddWithOverflow", "Add"):
                    st = p.blocks[o[0][2]]["stmts"][o[0][3]]["rv"]
                    a, b2 = st["a"], st["b"]
                    if a["k"] in ("copy", "move") and a["place"]["local"] == counter and b2["k"] == "const" and b2.get("bits") == "1":
                        good = True
            if good:
                incs.append(bb)
            else:
                ctx.viol((p.id, "counter-step"), "the line counter is changed by something other than += 1", p.where(bb, idx))
    if len(inits) != 1 or inits[0][1] != "1" or inits[0][0] in lp["body"]:
        ctx.viol((p.id, "counter-start"), "the line counter does not start at 1 (before the loop): reported lines are off", p.where(inits[0][0]) if inits else p.where(0))
    else:
        ctx.ok()
    ctx.inst("counter increment", p.where(incs[0]) if incs else None)
    if not incs:
        ctx.viol((p.id, "counter-never-incremented"), "the line counter is never incremented", p.where(lp["header"]))
    else:
        # exactly once per iteration: every path Some-edge -> header passes an increment, and none passes two
        r = p.reach([lp["some"][1]], avoid_blocks=incs)
        if lp["header"] in r:
            ctx.viol((p.id, "counter-skipped"), "some line does not advance the line counter: later errors name the wrong line", p.where(lp["header"]))
        elif any(b2 in p.reach_after(b1, avoid_blocks=[lp["header"]]) for b1 in incs for b2 in incs):
            ctx.viol((p.id, "counter-twice"), "a line can advance the counter twice", p.where(incs[0]))
        else:
            ctx.ok()


@rule("C14.R4", floor=2)
def c14_r4(ctx):
    """Canonical, merged paths: bundle nodes are collected in a BTreeMap keyed by name; a
    repeated name of the same kind is not inserted twice and of a different kind is
    Contradiction; the bundle's node list is produced by iterating that map."""
    fs = [f for f in prod(ctx.P) if f.constructs(BERR, "Contradiction")]
    ctx.need(len(fs) == 1, "the function merging bundle nodes")
    f = fs[0]
    ctx.saw(f)
    ins = [c for c in f.calls if erase_generics(c.path) == "std::collections::BTreeMap::insert"]
    gets = [c for c in f.calls if erase_generics(c.path) == "std::collections::BTreeMap::get"]
    ctx.inst("node map insert", ins[0].where if ins else f.where(0))
    if not ins or not gets:
        ctx.viol((f.id, "nodes-not-in-btreemap"), "bundle nodes are not merged through a BTreeMap keyed by name", f.where(0))
        return
    i, g = ins[0], gets[0]
    same_key = {o[-1] for o in f.origins_of_operand(g.args[1])} == {("field", "name")} and {o[-1] for o in f.origins_of_operand(i.args[1])} == {("field", "name")}
    if not (same_key and f.dominated_by_edges(i.bb, f.edges_of_call_variant(g, "None"))):
        ctx.viol((f.id, "node-overwritten"), "a repeated path entry can replace the earlier one (insert not guarded by a miss on the same name)", i.where)
    else:
        ctx.ok()
    some = f.edges_of_call_variant(g, "Some")
    for (bb, idx, rv, pl) in f.constructs(BERR, "Contradiction"):
        ctx.inst("Contradiction", f.where(bb, idx))

        def kinds_differ(d):
            if "call" not in d or d["op"] not in ("Ne", "Eq"):
                return False
            ao, bo = f.origins_of_operand(d["a"]), f.origins_of_operand(d["b"])
            return all(o[-1] == ("field", "node_type") for o in ao | bo) and ao != bo
        e = f.cmp_edges(lambda d: d["op"] == "Ne" and kinds_differ(d), True) | f.cmp_edges(lambda d: d["op"] == "Eq" and kinds_differ(d), False)
        if f.dominated_by_edges(bb, e) and f.dominated_by_edges(bb, some):
            ctx.ok()
        else:
            ctx.viol((f.id, "contradiction-unguarded"), "Contradiction is not tied to `same name, different node kind`", f.where(bb, idx))
    # a hit never passes silently unless the kinds were compared and found equal
    def kinds_cmp(d):
        if "call" not in d or d["op"] not in ("Ne", "Eq"):
            return False
        ao, bo = f.origins_of_operand(d["a"]), f.origins_of_operand(d["b"])
        return all(o[-1] == ("field", "node_type") for o in ao | bo) and ao != bo and ao and bo
    equal_e = f.cmp_edges(lambda d: d["op"] == "Ne" and kinds_cmp(d), False) | f.cmp_edges(lambda d: d["op"] == "Eq" and kinds_cmp(d), True)
    # (from the hit edge of the lookup, nothing but the comparison's `equal` edge or the
    #  Contradiction error leads on - to a return, to the next line, to an insert)
    ctx.inst("hit of the name lookup", g.where)
    contra_blocks = [bb for (bb, idx, rv, pl) in f.constructs(BERR, "Contradiction")]
    r = f.reach([x for (_, x) in some], avoid_edges=equal_e, avoid_blocks=contra_blocks)
    headers = [lp["header"] for lp in f.loops() if g.bb in lp["body"]]
    if some and (any(b in r for b in f.return_blocks) or any(h in r for h in headers) or any(c2.bb in r for c2 in ins)):
        ctx.viol((f.id, "repeated-name-unchecked"), "a repeated name can be accepted without its kind (file / directory) having been compared with the earlier entry: one of the two entries is silently dropped", g.where)
    else:
        ctx.ok()
    # producer: PathBundle{nodes}: the node vector is filled by one complete traversal of the BTreeMap
    for h in prod(ctx.P):
        for (bb, idx, rv, pl) in h.constructs("bundle::PathBundle"):
            if h.body.get("derived"):
                continue
            ctx.inst("PathBundle built in %s" % h.id, h.where(bb, idx))
            nv = h.vars_of_operand(rv["ops"][0])
            nv_o = h.origins_of_operand(rv["ops"][0])
            ok = False
            for lp in h.loops():
                from_map = lp["iter"] and all(o[0][0] == "call" and "BTreeMap" in o[0][3] and not any(st[0] == "truncate" for st in o[1:]) for o in lp["iter"])
                if not from_map:
                    continue
                pushes = [p2 for p2 in h.calls_to("std::vec::Vec::<T, A>::push") if p2.bb in lp["body"] and
                          (h.vars_of_operand(p2.args[0]) == nv or h.origins_of_operand(p2.args[0]) == nv_o)]
                if pushes and h.every_iteration_calls(lp, [p2.bb for p2 in pushes]) and not h.loop_exits(lp):
                    ok = True
            if not ok:
                # (not yet desugared form) collect(map(into_iter(btreemap)))
                no = nv_o
                ok = bool(no) and all(is_call(o, "std::iter::Iterator::collect") for o in no)
                if ok:
                    for o in no:
                        cc = h.call_at[o[0][2]]
                        src = h.origins_of_operand(cc.args[0])
                        if not all(s2[0][0] == "call" and "BTreeMap" in s2[0][3] for s2 in src) or any(st[0] == "truncate" for s2 in src for st in s2[1:]):
                            ok = False
            if ok:
                ctx.ok()
            else:
                ctx.viol((h.id, "bundle-order"), "the bundle's nodes do not come from a complete in-order traversal of the BTreeMap: path order would depend on line order", h.where(bb, idx))


@rule("C14.R5", floor=4)
def c14_r5(ctx):
    """The bundle layer's rejections exist and are guarded: Empty under `no lines`,
    WrongIndent under `first line's level != expected level`, ContainsEmptyLines under a
    non-empty result of the tab-only filter, each before the bundle is built."""
    sites = {v: [(f, s) for f in prod(ctx.P) for s in f.constructs(BERR, v)] for v in ("Empty", "WrongIndent", "ContainsEmptyLines", "Contradiction")}
    for v, ss in sites.items():
        if not ss:
            ctx.viol(("bundle", "rejection-missing", v), "bundle::ParseError::%s is never produced" % v)
    for f, (bb, idx, rv, pl) in sites["Empty"]:
        ctx.inst("Empty", f.where(bb, idx))

        def len_zero(d):
            for x, y in ((d["a"], d["b"]), (d["b"], d["a"])):
                if y["k"] == "const" and y.get("bits") == "0":
                    for o in f.origins_of_operand(x):
                        if is_call(o, "core::slice::<impl [T]>::len") and all(a[0][0] == "param" for a in f.origins_of_operand(f.call_at[o[0][2]].args[0])):
                            return True
            return False
        e = f.nonempty_edges(lambda op: bool(f.origins_of_operand(op)) and all(a[0][0] == "param" for a in f.origins_of_operand(op)), False)
        if f.dominated_by_edges(bb, e):
            ctx.ok()
        else:
            ctx.viol((f.id, "empty-unguarded"), "bundle Empty is not tied to `lines.len() == 0`", f.where(bb, idx))
        # the guard dominates the first indexing of lines[0]
        ne = f.cmp_edges(lambda d: d["op"] == "Eq" and len_zero(d), False) | f.cmp_edges(lambda d: d["op"] == "Ne" and len_zero(d), True)
        for b in f.blocks:
            if b["cleanup"]:
                continue
            t = b["term"]
            if t["k"] == "assert" and t["msg"]["k"] == "bounds_check" and t["msg"]["index"]["k"] in ("copy", "move"):
                io = f.origins_of_operand(t["msg"]["index"])
                if all(o[0][0] == "const" for o in io) and not f.dominated_by_edges(b["i"], ne):
                    ctx.viol((f.id, "index-before-empty-check"), "lines[0] is read on a path that did not exclude the empty section", f.where(b["i"]))
    for f, (bb, idx, rv, pl) in sites["WrongIndent"]:
        ctx.inst("WrongIndent", f.where(bb, idx))

        def level_ne(d):
            ao, bo = f.origins_of_operand(d["a"]), f.origins_of_operand(d["b"])
            for x, y in ((ao, bo), (bo, ao)):
                if x and y and all(o[-1] == ("field", "level") for o in x) and all(o[0][0] == "param" and len(o) == 1 for o in y):
                    return True
            return False
        e = f.cmp_edges(lambda d: d["op"] == "Ne" and level_ne(d), True) | f.cmp_edges(lambda d: d["op"] == "Eq" and level_ne(d), False)
        if f.dominated_by_edges(bb, e):
            ctx.ok()
        else:
            ctx.viol((f.id, "wrong-indent-unguarded"), "WrongIndent is not tied to `first line's level != expected level`", f.where(bb, idx))
        ok_e = f.cmp_edges(lambda d: d["op"] == "Ne" and level_ne(d), False) | f.cmp_edges(lambda d: d["op"] == "Eq" and level_ne(d), True)
        for (b2, i2, rv2, pl2) in f.constructs("bundle::PathBundle"):
            if not f.dominated_by_edges(b2, ok_e):
                ctx.viol((f.id, "bundle-despite-indent"), "a bundle can be built although the first line's indentation is wrong", f.where(b2, i2))
    for f, (bb, idx, rv, pl) in sites["ContainsEmptyLines"]:
        ctx.inst("ContainsEmptyLines", f.where(bb, idx))

        def nonempty(d):
            for x, y in ((d["a"], d["b"]), (d["b"], d["a"])):
                if y["k"] == "const" and y.get("bits") == "0":
                    for o in f.origins_of_operand(x):
                        if is_call(o, "std::vec::Vec::<T, A>::len"):
                            return True
            return False
        # the list of blank-line indices: the vector the error carries
        carried = f.vars_of_operand(rv["ops"][0]) if rv.get("ops") else set()

        def is_blank_list(op):
            return not carried or f.vars_of_operand(op) == carried
        e = f.nonempty_edges(is_blank_list, True)
        if f.dominated_by_edges(bb, e):
            ctx.ok()
        else:
            ctx.viol((f.id, "empty-lines-unguarded"), "ContainsEmptyLines is not tied to a non-empty list of blank lines", f.where(bb, idx))
        # the recursive parse is reached only when that list is empty
        ok_e = f.nonempty_edges(is_blank_list, False)
        rec = [c for c in f.calls if ctx.P.local_targets(c) and "PathBundle" in ctx.P.fns[ctx.P.local_targets(c)[0]].body.get("output", {}).get("s", "")]
        for c in rec:
            if not f.dominated_by_edges(c.bb, ok_e):
                ctx.viol((f.id, "parse-despite-empty-lines"), "the bundle is parsed although it contains blank lines", c.where)
    for v in ("Contradiction",):
        for f, (bb, idx, rv, pl) in sites[v]:
            ctx.inst(v, f.where(bb, idx))
            ctx.ok()


def _each_definition_sorted(ctx, g, arg, fld):
    """The argument is a variable every definition of which is either the rule's own list chosen
    under the true edge of a sortedness test of that list, or a vector `sort()` was called on."""
    vo = g.vars_of_operand(arg)
    if not vo:
        return False
    if all(v[0][0] == "var" and len(v) == 1 for v in vo):
        merged = [v[0][1] for v in vo]
    else:
        # an unnamed temporary that holds one of several values (the `Cow` an inlined helper
        # returns): follow the argument back to the local with more than one definition
        op = arg
        merged = None
        for _ in range(12):
            if op["k"] not in ("copy", "move") or any(e["k"] != "deref" for e in op["place"]["proj"]):
                return False
            ds = [d for d in g.defs.get(op["place"]["local"], ()) if not d[3]["proj"]]
            if len(ds) >= 2:
                merged = [op["place"]["local"]]
                break
            if len(ds) != 1:
                return False
            kind, bb, idx, place, payload = ds[0]
            if kind == "call" and payload.name in ("deref", "as_ref", "borrow", "deref_mut") and payload.args:
                op = payload.args[0]
            elif kind == "assign" and payload["k"] == "use":
                op = payload["op"]
            elif kind == "assign" and payload["k"] == "ref":
                op = {"k": "copy", "place": payload["place"]}
            else:
                return False
        if merged is None:
            return False
    for loc in merged:
        defs = [d for d in g.defs.get(loc, ()) if not d[3]["proj"]]
        if not defs:
            return False
        for (kind, bb, idx, place, payload) in defs:
            if kind != "assign":
                return False
            op = None
            if payload["k"] == "aggregate" and payload["ops"]:
                op = payload["ops"][0]
            elif payload["k"] == "use":
                op = payload["op"]
            elif payload["k"] == "ref":
                op = {"k": "copy", "place": payload["place"]}
            if op is None:
                return False
            org = g.origins_of_operand(op)
            ov = g.vars_of_operand(op)
            if ov and all(x[0][0] == "var" for x in ov) and \
                    any(g.vars_of_operand(sc.args[0]) == ov and g.dominated_by_blocks(bb, [sc.bb]) for sc in g.calls_to(SORT)):
                continue
            if org and all(o[0][0] == "param" and o[-1] == ("field", fld) for o in org):
                guards = set()
                for t in g.calls:
                    tg = ctx.P.local_targets(t)
                    if tg and ctx.P.fns[tg[0]].body.get("output", {}).get("s") == "bool" and g.origins_of_operand(t.args[0]) == org \
                            and _is_sorted_pred(ctx, ctx.P.fns[tg[0]]):
                        guards |= g.bool_edges_of_call(t, True)
                if not g.dominated_by_edges(bb, guards):
                    return False
                continue
            ov = g.vars_of_operand(op)
            if ov and any(g.vars_of_operand(sc.args[0]) == ov and g.dominated_by_blocks(bb, [sc.bb]) for sc in g.calls_to(SORT)):
                continue
            return False
    return True


@rule("C13.R3", floor=2)
def c13_r3(ctx):
    """Order-insensitive for targets/sources, order-sensitive for the command: the serialiser
    is called either under the true edges of both is-sorted tests or with vectors on which
    sort() was called; the command is passed unsorted; the is-sorted test compares adjacent
    pairs with <=."""
    f = _serialiser(ctx)
    callers = [c for c in ctx.P.callers.get(f.id, []) if not c.fn.body.get("in_test")]
    for c in callers:
        g = c.fn
        ctx.saw(g)
        ctx.inst("serialiser call in %s" % g.id, c.where)
        ok = True
        for i, fld in enumerate(("targets", "sources")):
            ao = g.origins_of_operand(c.args[i])
            vo = g.vars_of_operand(c.args[i])
            sorted_var = False
            fam = {o for o in g.var_family(c.args[i]) if o[0][0] == "var" and len(o) == 1}
            for v in vo:
                if v[0][0] == "var":
                    for s in g.calls_to(SORT):
                        sv = g.vars_of_operand(s.args[0])
                        if (sv == {v} or (sv and sv <= fam)) and g.dominated_by_blocks(c.bb, [s.bb]):
                            sorted_var = True
            if sorted_var:
                continue
            # direct field: needs the is-sorted guard on that same field
            guards = set()
            for t in g.calls:
                tg = ctx.P.local_targets(t)
                if tg and ctx.P.fns[tg[0]].body.get("output", {}).get("s") == "bool" and g.origins_of_operand(t.args[0]) == ao:
                    verdict = _is_sorted_pred(ctx, ctx.P.fns[tg[0]])
                    if verdict:
                        guards |= g.bool_edges_of_call(t, True)
                    elif verdict is None and g.dominated_by_edges(c.bb, g.bool_edges_of_call(t, True)):
                        raise AnalysisError("idiom not recognised: %s guards the unsorted use of %s but is not written as windows(2).all(|w| w[0] <= w[1]); the rule cannot tell whether it tests sortedness" % (tg[0], fld))
            if not g.dominated_by_edges(c.bb, guards) and _each_definition_sorted(ctx, g, c.args[i], fld):
                # (`let targets = if is_sorted(&self.targets) { Cow::Borrowed(..) } else { sorted copy }`:
                #  judged where each value is chosen, not where the merged variable is used)
                continue
            if not g.dominated_by_edges(c.bb, guards):
                ok = False
                ctx.viol((g.id, "unsorted-into-identity", fld), "%s reach the identity hash neither sorted nor checked to be sorted: re-ordering the lines would change the rule's identity" % fld, c.where)
        # command must not be sorted
        co = g.vars_of_operand(c.args[2])
        for s in g.calls_to(SORT):
            so = g.origins_of_operand(s.args[0])
            if any(o[-1] == ("field", "command") for o in so):
                ok = False
                ctx.viol((g.id, "command-sorted"), "command lines are sorted: two rules with the same lines in a different order would share an identity", s.where)
        if ok:
            ctx.ok()


def _is_sorted_by_index(ctx, f):
    """`for i in 1..data.len() { if data[i-1] > data[i] { return false } } true`, or the same with
    a counter (`let mut i = 1; while i < data.len() { .. i += 1 }`).  True / False as judged,
    None if the function is not written that way."""
    cmps = [c for c in f.calls if c.path.startswith("std::cmp::PartialOrd::") and c.name in ("gt", "lt", "ge", "le") and f.on_cycle(c.bb)]
    if len(cmps) != 1:
        return None
    c = cmps[0]

    def pos_of(op):
        """operand = &data[k] -> origins of k (data = the parameter)"""
        out = set()
        for o in f.origins_of_operand(op):
            if o[0] == ("param", 1) and len(o) == 2 and o[1][0] == "index":
                out |= f._origins(o[1][1], (), frozenset())         # slice[k]
            elif o[0][0] == "call" and len(o) == 1 and "Index" in o[0][3]:
                ix = f.call_at[o[0][2]]                              # vec[k] through Index::index
                if not all(x == (("param", 1),) for x in f.origins_of_operand(ix.args[0])):
                    return None
                out |= f.origins_of_operand(ix.args[1])
            else:
                return None
        return out
    pa, pb = pos_of(c.args[0]), pos_of(c.args[1])
    if not pa or not pb:
        return None

    def minus_one_of(x, y):
        """x == y - 1 ?"""
        for o in x:
            if o[0][0] == "binop" and o[0][4] in ("SubWithOverflow", "Sub"):
                st = f.blocks[o[0][2]]["stmts"][o[0][3]]["rv"]
                if st["b"]["k"] == "const" and st["b"].get("bits") == "1" and f.origins_of_operand(st["a"]) == y:
                    continue
            return False
        return bool(x)
    if minus_one_of(pa, pb):
        lo_first, pos = True, pb
    elif minus_one_of(pb, pa):
        lo_first, pos = False, pa
    else:
        return None
    # the running position covers 1..len
    lps = f.loops()
    covered = False
    exit_edges = set()
    if len(lps) == 1 and pos == lps[0]["elem"]:
        it = lps[0]["iter"]
        for o in it:
            if o[0][0] == "agg" and o[0][4].endswith("Range::Range") and len(o) == 1:
                rv = f.blocks[o[0][2]]["stmts"][o[0][3]]["rv"]
                a, b2 = rv["ops"]
                lo = f.origins_of_operand(b2)
                if a["k"] == "const" and a.get("bits") == "1" and lo and all(x[0][0] == "call" and x[0][3].split("::")[-1] == "len" and
                                                                             all(y == (("param", 1),) for y in f.origins_of_operand(f.call_at[x[0][2]].args[0])) for x in lo):
                    covered = True
                    exit_edges = {lps[0]["none"]}
    elif not lps:
        # counter form
        roots = {o[0] for o in pos}
        vs = f.vars_of_operand(c.args[0]) | f.vars_of_operand(c.args[1])
        cnt = None
        for l, nm in f.names.items():
            defs = f.defs.get(l, ())
            if f.local_ty(l)["s"] != "usize" or len(defs) != 2:
                continue
            consts = [d for d in defs if d[0] == "assign" and d[4]["k"] == "use" and d[4]["op"]["k"] == "const" and d[4]["op"].get("bits") == "1"]
            incs = []
            for d in defs:
                if d[0] == "assign" and d not in consts:
                    for o in f._rv_origins(d[4], (), d[1], d[2], frozenset()):
                        if o[0][0] == "binop" and o[0][4] in ("AddWithOverflow", "Add"):
                            st = f.blocks[o[0][2]]["stmts"][o[0][3]]["rv"]
                            if st["a"]["k"] in ("copy", "move") and st["a"]["place"]["local"] == l and st["b"]["k"] == "const" and st["b"].get("bits") == "1":
                                incs.append(d)
            if len(consts) == 1 and len(incs) == 1:
                cnt = l
        if cnt is not None:
            def bound(d):
                ao, bo = f.vars_of_operand(d["a"]), f.origins_of_operand(d["b"])
                return ao == {(("var", cnt),)} and bo and all(x[0][0] == "call" and x[0][3].split("::")[-1] == "len" for x in bo)
            inside = f.cmp_edges(lambda d: d["op"] == "Lt" and bound(d), True)
            exit_edges = f.cmp_edges(lambda d: d["op"] == "Lt" and bound(d), False)
            if inside and exit_edges and f.dominated_by_edges(c.bb, inside) and f.vars_of_operand(c.args[0 if not lo_first else 1]) is not None:
                covered = True
    if not covered:
        return None
    # out of order = lo > hi
    if lo_first:
        bad_true = c.name == "gt"
        bad_false = c.name == "le"
    else:
        bad_true = c.name == "lt"
        bad_false = c.name == "ge"
    if not (bad_true or bad_false):
        return False        # compares adjacent elements, but with the wrong relation (e.g. >= rejects equal neighbours)
    bad_e = f.bool_edges_of_call(c, True if bad_true else False)
    for (kind, bb, i, place, payload) in f.defs.get(0, ()):
        if kind != "assign" or payload["k"] != "use" or payload["op"]["k"] != "const":
            return None
        val = payload["op"].get("bits") == "1"
        if val and not f.dominated_by_edges(bb, exit_edges):
            return False
        if not val and not f.dominated_by_edges(bb, bad_e):
            return False
    falses = [bb for (kind, bb, i, place, payload) in f.defs.get(0, ()) if kind == "assign" and payload["op"].get("bits") == "0"]
    r = f.reach([x for (_, x) in bad_e if x not in falses], avoid_blocks=falses)
    if any(b2 in r for b2 in f.return_blocks) or c.bb in r:
        return False
    return True


def _is_sorted_pred(ctx, f):
    """windows(2).all(|w| w[0] <= w[1])  (seen after desugaring as a loop over windows(2))"""
    w = [c for c in f.calls if c.path == "core::slice::<impl [T]>::windows"]
    if not w:
        by_index = _is_sorted_by_index(ctx, f)
        if by_index is not None:
            return by_index
    if len(w) != 1 or w[0].args[1].get("bits") != "2":
        return None         # not the windows(2) form: this reader cannot judge it
    if not all(o[0][0] == "param" for o in f.origins_of_operand(w[0].args[0])):
        return None
    wo = f._call_origins(w[0], (), frozenset())
    lps = [lp for lp in f.loops() if lp["iter"] == wo]
    if len(lps) != 1:
        return None
    lp = lps[0]
    les = [c for c in f.calls if c.path == "std::cmp::PartialOrd::le" and c.bb in lp["body"]]
    if len(les) != 1:
        return None
    idx = []
    for a in les[0].args:
        found = None
        for o in f.origins_of_operand(a):
            if not any(o[:len(e)] == e for e in lp["elem"]):
                return False
            ix = [st for st in o if st[0] in ("index", "cindex")]
            if ix:
                st = ix[-1]
                if st[0] == "cindex":
                    found = st[1]
                else:
                    for q in f._origins(st[1], (), frozenset()):
                        if q[0][0] == "const":
                            found = int(str(q[0][1]).split("_")[0])
        idx.append(found)
    if idx != [0, 1]:
        return False
    le_false = f.bool_edges_of_call(les[0], False)
    for (kind, bb, i, place, payload) in f.defs.get(0, ()):
        if kind != "assign" or payload["k"] != "use" or payload["op"]["k"] != "const":
            return False
        val = payload["op"].get("bits") == "1"
        if val and not f.dominated_by_edges(bb, {lp["none"]}):
            return False
        if not val and not f.dominated_by_edges(bb, le_false):
            return False
    # an out-of-order pair always yields false
    r = f.reach([x for (_, x) in le_false], avoid_blocks=[bb for (kind, bb, i, place, payload) in f.defs.get(0, ()) if kind == "assign" and payload["op"].get("bits") == "0"])
    return lp["header"] not in r and not any(b2 in r for b2 in f.return_blocks)


@rule("C13.R4", floor=3)
def c13_r4(ctx):
    """The node carries what was hashed: a Frame's rule_ticket is get_ticket() of the very
    Rule whose targets/sources/command fill the frame; the Node built from a frame keeps
    that frame's targets, command and rule_ticket; Ticket's PartialEq/Eq/Hash agree."""
    fs = [f for f in prod(ctx.P) if any(pl["local"] == 0 or True for (_, _, _, pl) in f.constructs("sort::Frame")) and f.calls_to("rule::Rule::get_ticket")]
    ctx.need(fs, "the function building a Frame from a Rule")
    for f in fs:
        ctx.saw(f)
        gt = f.calls_to("rule::Rule::get_ticket")[0]
        ro = f.origins_of_operand(gt.args[0])
        for (bb, idx, rv, pl) in f.constructs("sort::Frame"):
            ctx.inst("Frame from Rule", f.where(bb, idx))
            ops = dict(zip(rv["kind"]["fields"], rv["ops"]))
            ok = f.origins_of_operand(ops["rule_ticket"]) == f._call_origins(gt, (), frozenset())
            for fld in ("targets", "sources", "command"):
                if f.origins_of_operand(ops[fld]) != {o + (("field", fld),) for o in ro}:
                    ok = False
            if ok:
                ctx.ok()
            else:
                ctx.viol((f.id, "frame-identity-mismatch"), "a frame's identity is not the hash of the very targets/sources/command it carries", f.where(bb, idx))
    for f in prod(ctx.P):
        for (bb, idx, rv, pl) in f.constructs("sort::Node"):
            ctx.inst("Node from Frame", f.where(bb, idx))
            ops = dict(zip(rv["kind"]["fields"], rv["ops"]))
            bases = set()
            ok = True
            for fld in ("targets", "command", "rule_ticket"):
                oo = f.origins_of_operand(ops[fld])
                if not oo or not all(o[-1] == ("field", fld) for o in oo):
                    ok = False
                bases |= {o[:-1] for o in oo}
            if ok and len(bases) == 1:
                ctx.ok()
            else:
                ctx.viol((f.id, "node-identity-mismatch"), "a node's targets, command and identity do not come from one frame", f.where(bb, idx))
    # the visiting copy keeps everything
    for f in prod(ctx.P):
        cs = f.constructs("sort::Frame")
        if cs and not f.calls_to("rule::Rule::get_ticket") and f.body.get("output", {}).get("s") == "sort::Frame":
            for (bb, idx, rv, pl) in cs:
                ctx.inst("Frame copy in %s" % f.id, f.where(bb, idx))
                ops = dict(zip(rv["kind"]["fields"], rv["ops"]))
                bad = [fld for fld in ("targets", "sources", "command", "rule_ticket", "index", "sub_index")
                       if f.origins_of_operand(ops[fld]) != {(("param", 1), ("field", fld))}]
                if bad:
                    ctx.viol((f.id, "frame-copy-loses", tuple(bad)), "marking a frame visited changes its %s" % ", ".join(bad), f.where(bb, idx))
                else:
                    ctx.ok()


WS_GENERAL = ("trim", "trim_start", "trim_end", "trim_left", "trim_right", "trim_ascii", "trim_ascii_start", "trim_ascii_end",
              "split_whitespace", "split_ascii_whitespace", "is_whitespace", "is_ascii_whitespace")


@rule("C14.R8", floor=2)
def c14_r8(ctx):
    """Every targets / sources section goes through the bundle parser: the two path lists
    given to Rule::new are, on every path, `get_path_strings` of the Ok result of
    `PathBundle::parse_lines` applied to that section's lines - never the lines themselves
    (the bundle parser is where indentation, empty lines and kind clashes are rejected)."""
    p = _parser(ctx)
    rn = p.calls_to("rule::Rule::new")
    ctx.need(len(rn) == 1, "Rule::new call")
    rn = rn[0]
    calls_of = {}
    for i, nm in enumerate(("targets", "sources")):
        ctx.inst("%s handed to Rule::new" % nm, rn.where)
        org = p.origins_of_operand(rn.args[i])
        bad = []
        for o in org:
            ok = False
            if is_call(o, "bundle::PathBundle::get_path_strings") and len(o) == 1:
                gp = p.call_at[o[0][2]]
                o2s = p.origins_of_operand(gp.args[0])
                if o2s and all(is_call(o2, "bundle::PathBundle::parse_lines") and o2[1:] == (("variant", "Ok"), ("field", 0)) for o2 in o2s):
                    ok = True
            if not ok:
                bad.append(fmt_origin(o))
        if not bad and org:
            calls_of[nm] = [p.call_at[o2[0][2]] for o in org for o2 in p.origins_of_operand(p.call_at[o[0][2]].args[0])]
        if not org or bad:
            ctx.viol((p.id, "section-bypasses-bundle-parser", nm), "the %s of a rule can be something other than the paths the bundle parser yields for that section (%s): lines that the bundle layer rejects (indentation without a parent, empty lines) would be accepted as paths" % (nm, ", ".join(sorted(bad))[:160]), rn.where)
        else:
            ctx.ok()


    # the targets section comes first in the file, and its error first in the report: the
    # sources' result is examined only once the targets' result was found Ok
    if calls_of.get("targets") and calls_of.get("sources"):
        t_ok = set()
        for tc in calls_of["targets"]:
            t_ok |= p.edges_of_call_variant(tc, "Ok")
        for sc in calls_of["sources"]:
            for (src, dst) in p.edges_of_call_variant(sc, "Err") | p.edges_of_call_variant(sc, "Ok"):
                if not p.dominated_by_edges(src, t_ok):
                    ctx.viol((p.id, "sources-judged-before-targets"), "the result of the sources section is examined before the targets section was found well-formed: when both are malformed the error of the later section is reported (its line numbers are relative to a section the user cannot tell)", sc.where)
                    break


@rule("C14.R10", floor=1)
def c14_r10(ctx):
    """The parser sees the file as it is: wherever the rules-file state machine is called, the
    text handed to it is the text that was read - nothing appended, trimmed or replaced on the
    way (a newline added to a truncated file turns "end of file inside a section" into "empty
    line")."""
    p = _parser(ctx)
    n = 0
    alter = ("push", "push_str", "insert", "insert_str", "truncate", "pop", "clear", "replace_range", "retain", "drain", "extend",
             "trim", "trim_end", "trim_start", "trim_matches", "trim_end_matches", "trim_start_matches", "replace", "replacen",
             "to_lowercase", "to_uppercase", "strip_suffix", "strip_prefix", "lines")
    for cs in ctx.P.callers.get(p.id, []):
        g = cs.fn
        if g.body.get("in_test"):
            continue
        n += 1
        ctx.saw(g)
        ctx.inst("parser called from %s" % g.id, cs.where)
        tv = g.var_family(cs.args[1])
        to = g.origins_of_operand(cs.args[1])
        bad = None
        for c in g.calls:
            if c.name in alter and c.args and (c.path.startswith(("std::string::String::", "core::str::", "std::str::", "alloc::string::String::"))):
                av = g.vars_of_operand(c.args[0])
                if (av and av <= tv) or (c.name in alter[11:] and any(o[0][0] == "call" and o[0][2] == c.bb for o in to)):
                    bad = c
        if bad is not None:
            ctx.viol((g.id, "text-altered-before-parse", bad.name), "the text of a rules file goes through `%s` before it is parsed: what the parser reports (and accepts) is no longer about the file as written" % bad.name, bad.where)
        else:
            ctx.ok()
    ctx.need(n, "a production caller of the rules-file parser")


@rule("C14.R9", floor=0, positional=False)
def c14_r9(ctx):
    """A shared prefix buffer is restored to a saved length: where the bundle code shortens a
    String it has pushed onto (`truncate`, `pop`, `drain`, `clear` ..), the only accepted form is
    `truncate(n)` with n the buffer's own `len()` taken before - cutting back to a position
    found by searching (the last separator) or popping characters leaves a wrong prefix behind
    when a name contains the separator, and every later path of the level is mis-spelt.
    (Expected to find nothing on the pinned tree, which builds a fresh prefix per directory.)"""
    P = ctx.P
    for f in prod(P):
        if not f.body["span"]["file"].endswith("bundle.rs"):
            continue
        for c in f.calls:
            if not c.path.startswith("std::string::String::") or c.name not in ("truncate", "pop", "drain", "clear", "remove", "replace_range", "retain", "split_off"):
                continue
            buf = f.vars_of_operand(c.args[0]) if c.args else set()
            pushed = [x for x in f.calls if x.path in ("std::string::String::push_str", "std::string::String::push") and x.args and f.vars_of_operand(x.args[0]) == buf]
            if not pushed:
                continue
            ctx.saw(f)
            ctx.inst("prefix shortened in %s" % f.id, c.where)
            ok = False
            if c.name == "truncate" and len(c.args) > 1:
                no = f.origins_of_operand(c.args[1])
                if no and all(o[0][0] == "call" and o[0][3].endswith("::len") and len(o) == 1 and f.vars_of_operand(f.call_at[o[0][2]].args[0]) == buf
                              and f.dominated_by_blocks(c.bb, [o[0][2]]) for o in no):
                    ok = True
            if ok:
                ctx.ok()
            else:
                ctx.viol((f.id, "prefix-not-restored-by-length", c.name), "the shared path prefix is shortened with `%s` to something other than a length saved before the pushes: after a directory whose name contains the separator a wrong prefix stays in the buffer, and the following paths of the rule are not the declared ones" % c.name, c.where)
    ctx.ok()


@rule("C14.R6", floor=1)
def c14_r6(ctx):
    """Only tabs indent and a name is everything after them: in the line lexer neither the
    level nor the text of a NumberedIndentedLine derives from an operation that treats all
    white space alike (trim*, split_whitespace, is_whitespace)."""
    n = 0
    for f in ctx.P.fns.values():
        if f.body.get("in_test") or f.kind == "promoted" or f.body.get("derived"):
            continue
        sites = f.constructs("bundle::NumberedIndentedLine")
        if not sites:
            continue
        ctx.saw(f)
        seeds = {c.dest["local"]: c for c in f.calls if c.name in WS_GENERAL and ("str" in c.path or "char" in c.path)}
        T = f.tainted_locals(lambda l: l in seeds) if seeds else set()
        for (bb, idx, rv, pl) in sites:
            names = rv["kind"]["fields"]
            for fld in ("level", "text"):
                if fld not in names:
                    continue
                n += 1
                ctx.inst("NumberedIndentedLine.%s" % fld, f.where(bb, idx))
                op = rv["ops"][names.index(fld)]
                if op["k"] in ("copy", "move") and op["place"]["local"] in T:
                    c = next(iter(seeds.values()))
                    ctx.viol((f.id, "indentation-by-general-whitespace", fld), "the %s of a bundle line derives from `%s`: blanks and other white space would count as indentation or be cut from the name, so a written path is not reproduced" % (fld, c.name), c.where)
                else:
                    ctx.ok()
    ctx.need(n, "construction of bundle::NumberedIndentedLine")


BYTE_OFFSET_SINKS = {  # callee name -> indices of the arguments that are byte offsets
    "truncate": (1,), "split_at": (1,), "split_at_mut": (1,), "split_off": (1,), "insert": (1,), "insert_str": (1,), "remove": (1,),
    "is_char_boundary": (1,), "drain": (1,), "replace_range": (1,), "get": (1,), "get_mut": (1,), "get_unchecked": (1,), "index": (1,), "index_mut": (1,),
}


@rule("C14.R7", floor=1)
def c14_r7(ctx):
    """Characters are not bytes: no byte offset into a string (truncate, split_at, slicing,
    insert, drain ..) derives from a count of its characters (`chars().count()`); for every
    non-ASCII name the two differ, so a path would be cut in the wrong place or the cut would
    panic inside a multi-byte character."""
    n_fns = 0
    n_sinks = 0
    for f in ctx.P.fns.values():
        if f.body.get("in_test") or f.kind == "promoted" or f.body.get("derived"):
            continue
        fl = f.body["span"]["file"]
        if not (fl.endswith("rule.rs") or fl.endswith("bundle.rs")):
            continue
        n_fns += 1
        seeds = {}
        for c in f.calls:
            if c.name == "count" and c.args:
                ao = f.origins_of_operand(c.args[0])
                # the count of *all* characters of a string (a filtered count, e.g. of leading
                # tabs, can legitimately equal a byte count and is not judged here)
                def whole_chars(o):
                    if o and o[-1] == ("iter", "chars"):
                        return True
                    return is_call(o) and len(o) == 1 and o[0][3].endswith("::chars")
                if ao and all(whole_chars(o) for o in ao):
                    seeds[c.dest["local"]] = c
        T = f.tainted_locals(lambda l: l in seeds) if seeds else set()
        for c in f.calls:
            idxs = BYTE_OFFSET_SINKS.get(c.name)
            if not idxs or not c.args:
                continue
            recv = c.args[0]
            rty = f.local_ty(recv["place"]["local"])["s"] if recv["k"] in ("copy", "move") else ""
            if "String" not in rty and "str" not in rty:
                continue
            n_sinks += 1
            ctx.inst("byte-offset use %s in %s" % (c.name, f.id), c.where)
            bad = False
            for i in idxs:
                if i < len(c.args) and c.args[i]["k"] in ("copy", "move") and c.args[i]["place"]["local"] in T:
                    bad = True
            if bad:
                sc = next(iter(seeds.values()))
                ctx.viol((f.id, "char-count-used-as-byte-offset", c.name), "`%s` is given an offset that derives from a count of characters (%s): for a non-ASCII string the cut lands elsewhere, or inside a character (panic)" % (c.name, sc.where), c.where)
            else:
                ctx.ok()
    ctx.need(n_fns, "parser functions")
    if not n_sinks:
        ctx.inst("no byte-offset string operation in the parser modules (nothing to confuse)")
        ctx.ok()
