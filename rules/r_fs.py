"""Rules about what ruler may do to the file system: C06.R1 R3 R3b, C07.R1-R4, C08.R1-R4,
C09.R1-R4, C10.R1-R3, C11.R1 R2 R4."""
from engine import rule
from roles import Roles, SYS, sys_calls, SYSTEM_MUTATORS, SYSTEM_OBSERVERS, JOIN
from common import remembered_entry_call, WorkRoles, effects, call_effects, mutating
from strings import format_of_operand, shape
from lib.mir import erase_generics, AnalysisError, fmt_origin

BACKUP_T = "cache::SysCache::<SystemType>::back_up_file_with_ticket"
BACKUP = "cache::SysCache::<SystemType>::back_up_file"
RESTORE = "cache::SysCache::<SystemType>::restore_file"
DL_RESTORE = "cache::DownloaderCache::restore_file"
RULER_DIR_OWNERS = ("cache::SysCache", "history::History", "current::CurrentFileStates")


def is_call(o, path=None):
    return o[0][0] == "call" and (path is None or o[0][3] == path)


def prod(P):
    return [f for f in P.fns.values() if not f.body.get("in_test") and f.kind != "promoted"]


def is_real_system(f):
    return f.body["span"]["file"].endswith("system/real.rs")


EXPECTED_SYSTEM = {"open": "ref", "create_file": "mut", "create_dir": "mut", "is_dir": "ref", "is_file": "ref",
                   "list_dir": "ref", "rename": "mut", "get_modified": "ref", "is_executable": "ref",
                   "set_is_executable": "mut", "execute_command": "mut"}
import zero


@rule("C08.R1", floor=11)
def c08_r1(ctx):
    """No deleting primitive: the production System trait has exactly the eleven methods
    (no remove_file / remove_dir), with the receiver kinds observers=&self, mutators=&mut
    self; no function outside system/real.rs calls a std::fs / std::process / std::os API."""
    t = ctx.P.facts.traits.get(SYS)
    ctx.need(t is not None, "trait system::System")
    got = {m["name"]: m["self_kind"] for m in t["methods"]}
    for n, k in got.items():
        ctx.inst("System::%s" % n)
        if n not in EXPECTED_SYSTEM:
            ctx.viol((SYS, "extra-primitive", n), "the production System trait has a primitive `%s` beyond the reviewed eleven (a delete/overwrite primitive makes content loss possible)" % n)
        elif EXPECTED_SYSTEM[n] != k:
            ctx.viol((SYS, "receiver-kind", n), "System::%s changed its receiver kind to %s" % (n, k))
        else:
            ctx.ok()
    for (f, c) in zero.os_api_calls([f for f in prod(ctx.P) if not is_real_system(f)]):
        ctx.viol((f.id, "os-api-outside-real", c.path), "direct OS file/process API outside system/real.rs: the System boundary is bypassed", c.where)


def mutator_sites(P):
    out = []
    for f in prod(P):
        if is_real_system(f):
            continue
        for c in sys_calls(f):
            if c.name in SYSTEM_MUTATORS:
                out.append(c)
    return out


def classify_origin(P, fn, o, depth=0, trail=None):
    """Where does a path string come from?  Returns a set of classes:
    'fileinfo'  - FileInfo.path of a blob
    'rulerdir'  - the path field of SysCache / History / CurrentFileStates
    'dirparam'  - the directory parameter of directory::init
    'other:<text>'"""
    trail = trail or []
    root = o[0]
    if o[-1] == ("field", "path"):
        # X.path: which X?
        base = o[:-1]
        if any(st == ("field", "file_infos") for st in base):
            return {"fileinfo"}
        if root[0] == "param":
            ty = fn.local_ty(root[1])["s"]
            if "blob::FileInfo" in ty and len(base) == 1:
                return {"fileinfo"}
            if any(x in ty for x in RULER_DIR_OWNERS) and len(base) == 1:
                return {"rulerdir:" + [x for x in RULER_DIR_OWNERS if x in ty][0]}
        if is_call(o, "blob::Blob::get_file_infos"):
            return {"fileinfo"}
        # element of a Vec<FileInfo> returned by a getter
        if root[0] == "call" and "get_file_infos" in root[3]:
            return {"fileinfo"}
    if root[0] == "param" and fn.id == "directory::init" and root[1] == 2 and len(o) == 1:
        return {"dirparam"}
    if root[0] == "param" and fn.kind != "closure" and fn.id != "main" and \
            not [c for c in P.callers.get(fn.id, []) if not c.fn.body.get("in_test")]:
        return {"uncalled"}          # dead production code: no caller can supply a path
    if root[0] == "param" and depth < 10:
        out = set()
        lifted = P.lift(fn, o)
        for (fid, lo) in lifted:
            if fid == fn.id and lo == o:
                out.add("other:%s:%s" % (fn.id, fmt_origin(o)))
            else:
                out |= classify_origin(P, P.fns[fid], lo, depth + 1)
        return out
    return {"other:%s:%s" % (fn.id, fmt_origin(o))}


def classify_path_operand(P, fn, op, depth=0):
    """Classes of a path operand, looking through format!(\"{}/..\", base, ..)."""
    fm = format_of_operand(fn, op)
    if fm is not None:
        if not fm or fm[0][0] != "arg":
            return {"other:format-without-base"}
        base = classify_path_operand(P, fn, fm[0][1], depth + 1)
        rest = fm[1:]
        if len(rest) == 1 and rest[0][0] == "lit" and b"/" not in rest[0][1] and b".." not in rest[0][1] and rest[0][1]:
            # `<base><suffix>`: a neighbour of base in the same directory
            return {b + "~" for b in base}
        if not rest or rest[0][0] != "lit" or not rest[0][1].startswith(b"/"):
            return {"other:format-not-under-base"}
        for p in rest:
            if p[0] == "lit" and (b".." in p[1]):
                return {"other:format-dotdot"}
        return {b + "/+" for b in base}
    out = set()
    orgs = fn.origins_of_operand(op)
    if len(orgs) > 1 and all(o[0][0] == "call" and o[0][3] == "std::fmt::format" and len(o) == 1 for o in orgs):
        # a path chosen between several format!() results
        from strings import format_of_call
        for o in orgs:
            fm2 = format_of_call(fn, fn.call_at[o[0][2]])
            if not fm2 or fm2[0][0] != "arg":
                out.add("other:format")
                continue
            base = classify_path_operand(P, fn, fm2[0][1], depth + 1)
            rest = fm2[1:]
            if len(rest) == 1 and rest[0][0] == "lit" and b"/" not in rest[0][1] and b".." not in rest[0][1] and rest[0][1]:
                out |= {b + "~" for b in base}
            elif rest and rest[0][0] == "lit" and rest[0][1].startswith(b"/"):
                out |= {b + "/+" for b in base}
            else:
                out.add("other:format")
        return out
    for o in orgs:
        if o[0][0] == "param" and depth < 10:
            # parameter: classify at each caller with the actual operand (keeps format! visible)
            sites = P.callers.get(fn.id, [])
            cls_here = classify_origin(P, fn, o)
            if all(not c.startswith("other:") for c in cls_here):
                out |= cls_here
                continue
            if len(o) == 1 and fn.kind != "closure" and not [c for c in sites if not c.fn.body.get("in_test")]:
                out.add("uncalled")
                continue
            if len(o) == 1 and sites and fn.kind != "closure":
                for cs in sites:
                    if cs.fn.body.get("in_test"):
                        continue
                    out |= classify_path_operand(P, cs.fn, cs.args[o[0][1] - 1], depth + 1)
                continue
            out |= cls_here
        else:
            out |= classify_origin(P, fn, o)
    return out


@rule("C09.R1", floor=9)
def c09_r1(ctx):
    """Path arguments of every mutating System call (rename, create_file, create_dir,
    set_is_executable) derive only from a FileInfo.path of a blob or from ruler's own
    directory (SysCache.path / History.path / CurrentFileStates.path / the directory
    parameter of init, possibly followed by `/literal` or `/ticket`)."""
    sites = mutator_sites(ctx.P)
    for c in sites:
        if c.name == "execute_command":
            continue
        f = c.fn
        ctx.saw(f)
        for ai, a in enumerate(c.args[1:]):
            if ty_is_path(f, a) is False:
                continue
            ctx.inst("%s arg%d in %s" % (c.name, ai + 1, f.id), c.where)
            cls = classify_path_operand(ctx.P, f, a)
            bad = [x for x in cls if x.startswith("other:") or (x.endswith("~") and x.startswith("fileinfo"))]
            if bad or not cls:
                ctx.viol((f.id, "foreign-path", c.name, ai + 1), "%s is applied to a path that is neither a declared target nor inside ruler's directory (derives from %s)" % (c.name, sorted(cls)), c.where)
            else:
                ctx.ok()
    # the three owner fields are assigned only in constructors whose argument is under the directory
    for owner, ctor in (("cache::SysCache", "cache::SysCache::<SystemType>::new"), ("history::History", "history::History::<SystemType>::new"),
                        ("current::CurrentFileStates", None)):
        for f in prod(ctx.P):
            for (bb, idx, rv, pl) in f.constructs(owner):
                ctx.inst("%s constructed in %s" % (owner, f.id), f.where(bb, idx))
                names = rv["kind"]["fields"]
                pop = rv["ops"][names.index("path")]
                cls = classify_path_operand(ctx.P, f, pop)
                if f.body.get("derived") and cls == {"rulerdir:" + owner}:
                    ctx.ok()
                    continue
                if not cls or any(not x.startswith("dirparam/+") for x in cls):
                    ctx.viol((f.id, "owner-path", owner), "%s.path is not `<directory>/<literal>` (derives from %s)" % (owner, sorted(cls)), f.where(bb, idx))
                else:
                    ctx.ok()


def ty_is_path(f, op):
    if op["k"] in ("copy", "move"):
        t = f.local_ty(op["place"]["local"])["s"]
        if op["place"]["proj"]:
            return None
        return t in ("&str", "&std::string::String", "std::string::String")
    if op["k"] == "const":
        return op.get("ty", {}).get("s") == "&str"
    return None


@rule("C09.R2", floor=2)
def c09_r2(ctx):
    """Where FileInfos come from: FileInfo is constructed only inside Blob::from_paths, Blob
    only in from_paths/empty; from_paths is called only from take_blob, whose paths are the
    caller's vector; Blob.file_infos is private."""
    sites = [(f, s) for f in prod(ctx.P) for s in f.constructs("blob::FileInfo") if not f.body.get("derived")]
    ctx.need(sites, "FileInfo construction")
    for f, (bb, idx, rv, pl) in sites:
        ctx.inst("FileInfo built in %s" % f.id, f.where(bb, idx))
        root = f.body.get("root", f.id)
        if not root.startswith("blob::Blob::from_paths"):
            ctx.viol((f.id, "fileinfo-elsewhere"), "a FileInfo (a path ruler will act on) is fabricated outside Blob::from_paths", f.where(bb, idx))
            continue
        names = rv["kind"]["fields"]
        po = f.origins_of_operand(rv["ops"][names.index("path")])
        if not all(o[0][0] == "param" for o in po):
            ctx.viol((f.id, "fileinfo-path-foreign"), "FileInfo.path is not the path handed to from_paths", f.where(bb, idx))
        else:
            ctx.ok()
    for f in prod(ctx.P):
        if f.body.get("derived"):
            continue
        for (bb, idx, rv, pl) in f.constructs("blob::Blob"):
            ctx.inst("Blob built in %s" % f.id, f.where(bb, idx))
            if f.id not in ("blob::Blob::from_paths", "blob::Blob::empty"):
                ctx.viol((f.id, "blob-elsewhere"), "a Blob is fabricated outside from_paths/empty", f.where(bb, idx))
            else:
                ctx.ok()
    callers = [c for c in ctx.P.callers.get("blob::Blob::from_paths", []) if not c.fn.body.get("in_test")]
    ctx.need(callers, "a caller of Blob::from_paths")
    for c in callers:
        if not c.fn.id.startswith("current::CurrentFileStates::<SystemType>::take_blob"):
            ctx.viol((c.fn.id, "from-paths-caller"), "Blob::from_paths called outside take_blob", c.where)
        elif not all(o[0][0] == "param" and len(o) == 1 for o in c.fn.origins_of_operand(c.args[0])):
            ctx.viol((c.fn.id, "take-blob-paths"), "take_blob builds its blob from something other than its paths argument", c.where)
    a = ctx.P.facts.adts.get("blob::Blob")
    fld = [x for x in a["variants"][0]["fields"] if x["name"] == "file_infos"]
    if not fld or "Restricted" not in fld[0]["vis"]:
        ctx.viol(("blob::Blob", "file-infos-public"), "Blob.file_infos is no longer private: paths can be injected")
    # no writes to file_infos outside constructors (pushes / assignments to the Vec itself)
    for f in prod(ctx.P):
        for b in f.blocks:
            if b["cleanup"]:
                continue
            for i, s in enumerate(b["stmts"]):
                if s["k"] == "assign" and s["place"]["proj"] and s["place"]["proj"][-1].get("name") == "file_infos" and f.id not in ("blob::Blob::from_paths", "blob::Blob::empty"):
                    ctx.viol((f.id, "file-infos-assigned"), "Blob.file_infos reassigned", f.where(b["i"], i))
        for c in f.calls:
            if c.path.startswith("std::vec::Vec::<T, A>::") and c.name in ("push", "insert", "extend", "append", "extend_from_slice") and c.args:
                oo = f.origins_of_operand(c.args[0])
                if any(("field", "file_infos") in o for o in oo):
                    ctx.viol((f.id, "file-infos-grown"), "an entry is added to Blob.file_infos after construction", c.where)


@rule("C09.R3", floor=3)
def c09_r3(ctx):
    """Which blob reaches which thread: the blob captured by a node closure (build and clean)
    is take_blob(targets of the node being spawned); the blob captured by a leaf closure
    goes only to a handler without mutating effects ("leaf sources are only hashed")."""
    R = Roles(ctx.P)
    leaf, node = R.build_closures()
    clean = R.clean_closure()
    for cl, kind in ((leaf, "leaf"), (node, "node"), (clean, "clean")):
        pf, bb, idx, rv = ctx.P.closure_sites[cl.id]
        ctx.inst("%s closure" % kind, pf.where(bb, idx))
        blobs = [sl for sl in cl.capture_slots() if sl["ty"]["s"] == "blob::Blob"]
        if len(blobs) != 1:
            ctx.viol((cl.id, "blob-captures"), "a thread closure captures %d blobs (expected its own one)" % len(blobs), pf.where(bb, idx))
            continue
        bo = pf._op_origins(rv["ops"][blobs[0]["i"]], tuple(blobs[0]["steps"][1:]), frozenset())
        if not (len(bo) == 1 and is_call(next(iter(bo))) and "take_blob" in next(iter(bo))[0][3]):
            ctx.viol((cl.id, "blob-not-taken"), "the blob handed to the thread is not a take_blob result", pf.where(bb, idx))
            continue
        tb = pf.call_at[next(iter(bo))[0][2]]
        lps = [lp for lp in pf.loops() if bb in lp["body"] and tb.bb in lp["body"]]
        if not lps:
            ctx.viol((cl.id, "blob-outside-loop"), "blob and spawn are not in the same plan iteration", pf.where(bb, idx))
            continue
        lp = min(lps, key=lambda l: len(l["body"]))
        po = pf.origins_of_operand(tb.args[1])
        if kind == "leaf":
            # vec![leaf.clone()] of this iteration's leaf
            el_locals = {l for l in range(len(pf.body["locals"])) if any(o[:len(e)] == e for e in lp["elem"] for o in pf._origins(l, (), frozenset()))}
            T = pf.tainted_locals(lambda l: l in el_locals)
            ok = tb.args[1]["k"] in ("copy", "move") and tb.args[1]["place"]["local"] in T
            eff = set()
            for c in R.handler_calls(cl):
                eff |= set(mutating(call_effects(ctx.P, c)))
            for c in sys_calls(cl):
                if c.name in SYSTEM_MUTATORS:
                    eff.add(c.name)
            if eff:
                ctx.viol((cl.id, "leaf-mutated"), "a leaf (source-only) thread can reach mutating file-system operations: %s" % sorted(eff), pf.where(bb, idx))
            if not ok:
                ctx.viol((cl.id, "leaf-blob-foreign"), "the leaf thread's blob is not built from this iteration's leaf path", tb.where)
            if ok and not eff:
                ctx.ok()
        else:
            ok = _derives_from_elem(pf, tb.args[1], lp, "targets")
            if not ok:
                ctx.viol((cl.id, "node-blob-foreign"), "the %s thread's blob is not take_blob(targets) of the node being spawned (derives from %s)" % (kind, sorted(map(fmt_origin, po))), tb.where)
            else:
                ctx.ok()


def _derives_from_elem(pf, op, lp, field):
    """op derives (through vec!/clone/moves) from this loop's element (optionally .field)."""
    seen = set()
    work = [op]
    found = False
    n = 0
    while work and n < 50:
        n += 1
        o = work.pop()
        for org in pf.origins_of_operand(o):
            for e in lp["elem"]:
                if org[:len(e)] == e:
                    tail = org[len(e):]
                    if field is None or ("field", field) in tail:
                        found = True
            if org[0][0] == "agg" and org[0][1] == pf.id:
                key = (org[0][2], org[0][3])
                if key in seen:
                    continue
                seen.add(key)
                rv = pf.blocks[org[0][2]]["stmts"][org[0][3]]["rv"]
                work.extend(rv["ops"])
            if org[0][0] == "call" and org[0][1] == pf.id:
                cs = pf.call_at[org[0][2]]
                key = ("c", cs.bb)
                if key in seen:
                    continue
                seen.add(key)
                if cs.path in ("alloc::slice::<impl [T]>::into_vec", "std::boxed::box_new", "std::boxed::Box::<T>::new", "alloc::alloc::exchange_malloc") or "into_vec" in cs.path or "box" in cs.path.lower():
                    work.extend(cs.args)
    return found


@rule("C09.R4", floor=3)
def c09_r4(ctx):
    """Goal restriction is honoured: build / clean / run pass their own goal parameter to the
    node-loading function, which calls the goal-restricted sorter on the Some edge and the
    all-rules sorter only on None; the node list spawned from derives from that result."""
    R = Roles(ctx.P)
    loaders = [f for f in prod(ctx.P) if f.calls_to("sort::topological_sort") or f.calls_to("sort::topological_sort_all")]
    ctx.need(len(loaders) == 1, "the node-loading function (calls both sorters)")
    ld = loaders[0]
    ctx.saw(ld)
    goal_params = [i + 1 for i, t in enumerate(ld.body["inputs"]) if t["s"] == "std::option::Option<std::string::String>"]
    ctx.need(len(goal_params) == 1, "goal parameter of the loader")
    gp = goal_params[0]
    gsrc = {(("param", gp),)}
    some = ld.edges_of_value_variant(gsrc, "Some")
    none = ld.edges_of_value_variant(gsrc, "None")
    ts = ld.calls_to("sort::topological_sort")
    ta = ld.calls_to("sort::topological_sort_all")
    ctx.inst("loader", ld.where(0))
    if not ts or not all(ld.dominated_by_edges(c.bb, some) for c in ts):
        ctx.viol((ld.id, "goal-ignored"), "with a goal given, the loader does not use the goal-restricted sorter", ld.where(0))
    else:
        for c in ts:
            if ld.origins_of_operand(c.args[1]) != {(("param", gp), ("variant", "Some"), ("field", 0))}:
                ctx.viol((ld.id, "goal-foreign"), "the sorter's goal is not the loader's goal parameter", c.where)
    if not all(ld.dominated_by_edges(c.bb, none) for c in ta):
        ctx.viol((ld.id, "all-with-goal"), "the all-rules sorter can be used although a goal was given (out-of-scope targets would be touched)", ta[0].where)
    else:
        ctx.ok()
    # both sorters get the parsed rules of the given rule files
    for ename, goal_desc in (("build", "params.goal_target_opt"), ("clean", "goal parameter"), ("run", "executable")):
        e = R.entry(ename)
        if ename == "run":
            # run -> build(BuildParams::from_all(.., Some(executable.clone())))
            bc = [c for c in e.calls if R.entry("build").id in ctx.P.local_targets(c)]
            ctx.need(len(bc) == 1, "build call in run")
            po = e.origins_of_operand(bc[0].args[2])
            ctx.inst("run goal", bc[0].where)
            ok = False
            for o in po:
                if is_call(o, "build::BuildParams::from_all"):
                    fa = e.call_at[o[0][2]]
                    go = e.origins_of_operand(fa.args[3])
                    ok = all(g[0][0] == "agg" and g[0][4].endswith("Option::Some") for g in go)
                    if ok:
                        for g in go:
                            rv = e.blocks[g[0][2]]["stmts"][g[0][3]]["rv"]
                            exo = e.origins_of_operand(rv["ops"][0])
                            exe = [i + 1 for i, t in enumerate(e.body["inputs"]) if t["s"] == "std::string::String"]
                            if not all(x[0] == ("param", exe[0]) for x in exo):
                                ok = False
            if not ok:
                ctx.viol((e.id, "run-goal"), "`run` does not restrict the build to the executable's rule and its prerequisites", bc[0].where)
            else:
                ctx.ok()
            continue
        lc = [c for c in e.calls if ld.id in ctx.P.local_targets(c)]
        ctx.need(len(lc) == 1, "one loader call in %s" % ename)
        c = lc[0]
        ctx.inst("%s goal" % ename, c.where)
        go = e.origins_of_operand(c.args[gp - 1])
        if ename == "build":
            want = lambda o: o[0][0] == "param" and o[-1] == ("field", "goal_target_opt") and "BuildParams" in e.local_ty(o[0][1])["s"]
        else:
            want = lambda o: o[0][0] == "param" and len(o) == 1 and e.body["inputs"][o[0][1] - 1]["s"] == "std::option::Option<std::string::String>"
        if go and all(want(o) for o in go):
            ctx.ok()
        else:
            ctx.viol((e.id, "goal-not-forwarded"), "%s does not pass its goal to the loader (passes %s): out-of-scope rules would be built/cleaned" % (ename, sorted(map(fmt_origin, go))), c.where)
        # the plan iterated for spawning derives from the loader result only
        for (pf, cs, cl) in R.spawns():
            if pf is not e:
                continue
            lps = [lp for lp in e.loops() if cs.bb in lp["body"]]
            lp = max(lps, key=lambda l: len(l["body"])) if lps else None
            if lp is None:
                continue
            roots = _plan_roots(ctx.P, e, lp)
            if not roots or not all(r == ("call", e.id, c.bb, c.path) for r in roots):
                ctx.viol((e.id, "plan-foreign", cl.id), "threads are spawned from a node list that is not the loader's result", cs.where)
    # BuildParams::from_all stores the goal it is given
    fa = ctx.P.fns.get("build::BuildParams::from_all")
    if fa is not None:
        for (bb, idx, rv, pl) in fa.constructs("build::BuildParams"):
            names = rv["kind"]["fields"]
            go = fa.origins_of_operand(rv["ops"][names.index("goal_target_opt")])
            if go != {(("param", 4),)}:
                ctx.viol((fa.id, "params-goal"), "BuildParams does not store the goal it was given", fa.where(bb, idx))


def _plan_roots(P, e, lp):
    """Roots (call origins) of the collection a spawn loop iterates, looking through
    ChannelPack::new and `?`."""
    out = set()
    work = list(lp["iter"])
    seen = set()
    n = 0
    while work and n < 60:
        n += 1
        o = work.pop()
        if o in seen:
            continue
        seen.add(o)
        root = o[0]
        if root[0] == "call":
            cs = e.call_at.get(root[2])
            if cs is None:
                out.add(root)
                continue
            tg = P.local_targets(cs)
            if cs.path == "std::ops::Try::branch":
                work.extend(e.origins_of_operand(cs.args[0]))
            elif tg and "ChannelPack" in tg[0]:
                work.extend(e.origins_of_operand(cs.args[0]))
            elif erase_generics(cs.path) in ("std::vec::Vec::new", "std::vec::Vec::with_capacity"):
                # a table built right here (the channel wiring written out in the entry point):
                # what it holds is what was pushed into it
                old_flag, old_cache = getattr(e, "content_flow", False), e._origin_cache
                e.content_flow, e._origin_cache = True, {}
                try:
                    vals = e._vector_contents({(root,)}, (), frozenset())
                finally:
                    e.content_flow, e._origin_cache = old_flag, old_cache
                if vals:
                    work.extend(vals)
                else:
                    out.add(root)
            else:
                out.add(root)
        elif root[0] == "agg" and root[4] == "tuple" and len(o) == 1:
            # (node, senders, receivers): the plan element is the part that is not a channel end
            rv = e.blocks[root[2]]["stmts"][root[3]]["rv"]
            parts = []
            for x in rv["ops"]:
                ty = e.local_ty(x["place"]["local"])["s"] if x["k"] in ("copy", "move") else ""
                if "Sender<" in ty or "Receiver<" in ty:
                    continue
                parts.append(x)
            if parts:
                for x in parts:
                    work.extend(e.origins_of_operand(x))
            else:
                out.add(root)
        else:
            out.add(root)
    return out


@rule("C07.R1", floor=4)
def c07_r1(ctx):
    """A file enters the cache under its own hash: at every call of
    back_up_file_with_ticket(t, p), t is the Ok(Some(_)) payload of the file-hash function
    (or the result of TicketFactory::from_file) applied to the same path p, with no
    mutating call on the way."""
    W = WorkRoles(ctx.P)
    hashers = {h.id for h in W.hash_fns()}
    sites = [c for f in prod(ctx.P) for c in f.calls_to(BACKUP_T)]
    ctx.need(sites, "call sites of back_up_file_with_ticket")
    for c in sites:
        f = c.fn
        ctx.saw(f)
        ctx.inst("back-up in %s" % f.id, c.where)
        to = f.origins_of_operand(c.args[1])
        po = f.origins_of_operand(c.args[2])
        ok = bool(to)
        src_calls = []
        for o in to:
            if is_call(o) and o[0][3] in hashers and o[1:] == (("variant", "Ok"), ("field", 0), ("variant", "Some"), ("field", 0)):
                h = f.call_at[o[0][2]]
                if f.origins_of_operand(h.args[1]) != po:
                    ok = False
                src_calls.append(h)
            elif is_call(o, "ticket::TicketFactory::result") and len(o) == 1:
                r = f.call_at[o[0][2]]
                fo = f.origins_of_operand(r.args[0])
                good = False
                for x in fo:
                    if is_call(x, "ticket::TicketFactory::from_file") and x[1:] == (("variant", "Ok"), ("field", 0)):
                        ff = f.call_at[x[0][2]]
                        if f.origins_of_operand(ff.args[1]) == po:
                            good = True
                            src_calls.append(ff)
                if not good:
                    ok = False
            else:
                ok = False
        if not ok:
            ctx.viol((f.id, "backup-foreign-ticket"), "a file is moved into the cache under a name that is not the hash of that very file (ticket derives from %s)" % sorted(map(fmt_origin, to)), c.where)
            continue
        # no mutation between hashing and the move
        bad = None
        for h in src_calls:
            fwd = f.reach_after(h.bb, avoid_blocks=[h.bb, c.bb]) | {c.bb}
            between = {b for b in fwd if c.bb in f.reach([b], avoid_blocks=[h.bb])}
            for b in between:
                if b in f.call_at and b != c.bb and b != h.bb:
                    m = mutating(call_effects(ctx.P, f.call_at[b]))
                    if m:
                        bad = f.call_at[b]
        if bad is not None:
            ctx.viol((f.id, "backup-after-mutation"), "the file can change between being hashed and being cached", bad.where)
        else:
            ctx.ok()


@rule("C07.R2", floor=3)
def c07_r2(ctx):
    """One naming scheme: restore, open and back-up build the cache path as
    `{self.path}/{ticket.human_readable()}` with identical templates; history writer and
    reader build `{self.path}/{rule ticket}` identically."""
    groups = {
        "cache": [RESTORE, "cache::SysCache::<SystemType>::open", BACKUP_T],
        "history": ["history::History::<SystemType>::write_rule_history", "history::History::<SystemType>::read_rule_history"],
    }
    for g, ids in groups.items():
        shapes = []
        for fid in ids:
            f = ctx.P.fn(fid)
            ctx.saw(f)
            fs = f.calls_to("std::fmt::format")
            # the format feeding the System calls of this function
            used = None
            for c in sys_calls(f):
                for a in c.args[1:]:
                    fm = format_of_operand(f, a)
                    if fm is not None:
                        used = fm
            if used is None:
                ctx.viol((fid, "no-path-format"), "cannot find the path format in %s" % fid, f.where(0))
                continue
            ctx.inst("path format in %s" % fid, f.where(0))
            sh = []
            for p in used:
                if p[0] == "lit":
                    sh.append(("lit", p[1]))
                else:
                    org = f.origins_of_operand(p[1])
                    kind = "?"
                    if org == {(("param", 1), ("field", "path"))}:
                        kind = "self.path"
                    elif all(is_call(o, "ticket::Ticket::human_readable") for o in org):
                        hr = f.call_at[next(iter(org))[0][2]]
                        if all(x[0][0] == "param" and len(x) == 1 for x in f.origins_of_operand(hr.args[0])):
                            kind = "ticket"
                    elif all(o[0][0] == "param" and len(o) == 1 and "ticket::Ticket" in f.local_ty(o[0][1])["s"] for o in org):
                        kind = "ticket"
                    sh.append(("arg", kind))
            shapes.append((fid, sh))
        want = [("arg", "self.path"), ("lit", b"/"), ("arg", "ticket")]
        for fid, sh in shapes:
            if sh != want:
                ctx.viol((fid, "naming-scheme", g), "the %s path is not `<dir>/<ticket>` here (got %s): writer and readers disagree on entry names" % (g, sh), ctx.P.fn(fid).where(0))
            else:
                ctx.ok()
    # Display for Ticket is human_readable
    d = ctx.P.fns.get("<ticket::Ticket as std::fmt::Display>::fmt")
    ctx.need(d is not None, "Display for Ticket")
    hr = d.calls_to("ticket::Ticket::human_readable")
    if not hr or not all(o == (("param", 1),) for o in d.origins_of_operand(hr[0].args[0])):
        ctx.viol((d.id, "display-not-hr"), "Display for Ticket is no longer human_readable(): history file names change form", d.where(0))


@rule("C07.R3", floor=2)
def c07_r3(ctx):
    """Nobody else writes there: the only mutating System calls whose path lies in the cache
    directory (derives from SysCache.path) are the two renames in cache.rs."""
    n = 0
    for c in mutator_sites(ctx.P):
        if c.name == "execute_command":
            continue
        f = c.fn
        for a in c.args[1:]:
            if ty_is_path(f, a) is False:
                continue
            cls = classify_path_operand(ctx.P, f, a)
            if any(x.startswith("rulerdir:cache::SysCache") for x in cls):
                n += 1
                ctx.inst("%s on a cache path in %s" % (c.name, f.id), c.where)
                if c.name != "rename" or f.id not in (RESTORE, BACKUP_T):
                    ctx.viol((f.id, "cache-written-elsewhere", c.name), "a cache entry is created/changed by something other than the two renames of cache.rs", c.where)
                else:
                    ctx.ok()


@rule("C07.R4", floor=3)
def c07_r4(ctx):
    """The pair (path, assumed state) given to the file-hash function always comes from one
    FileInfo: both arguments project from the same base."""
    W = WorkRoles(ctx.P)
    hashers = {h.id for h in W.hash_fns()} | {"blob::get_actual_file_state"}
    for f in prod(ctx.P):
        for c in f.calls:
            tg = ctx.P.local_targets(c)
            if not tg or tg[0] not in hashers:
                continue
            ctx.inst("hash call in %s" % f.id, c.where)
            po = f.origins_of_operand(c.args[1])
            so_all = f.origins_of_operand(c.args[2])
            so = {s for s in so_all if s[-1] == ("field", "file_state")}
            # a refreshed state stored back into the same place is the same FileInfo's state
            extra_ok = all((is_call(s) and ctx.P.local_targets(f.call_at[s[0][2]]) and ctx.P.local_targets(f.call_at[s[0][2]])[0] in hashers
                            and s[1:] == (("variant", "Ok"), ("field", 0))) or
                           (s[0][0] == "agg" and s[0][4] == "blob::FileState::FileState" and len(s) == 1) for s in so_all - so)
            if po and so and extra_ok and all(p[-1] == ("field", "path") for p in po) \
                    and {p[:-1] for p in po} == {s[:-1] for s in so}:
                ctx.ok()
            else:
                ctx.viol((f.id, "state-of-other-file"), "a file is hashed with the remembered state of a different path (mtime shortcut would return a foreign hash)", c.where)


# ------------------------------------------------------------------------------ vacancy

def vacant(P, fn, bb, path_origins, depth=0, trail=None):
    """Is the path `path_origins` known vacant (backed up, or found absent) on every path to
    bb?  Lifts through callers when the path is a parameter.  Returns (bool, chain)."""
    trail = (trail or []) + ["%s bb%d" % (fn.id, bb)]
    W = WorkRoles(P)
    hashers = {h.id for h in W.hash_fns()}
    edges = set()
    for c in fn.calls:
        tg = P.local_targets(c)
        if c.path in (BACKUP_T, BACKUP) or (tg and tg[0] in (BACKUP_T, BACKUP)):
            parg = c.args[2] if (tg and tg[0] == BACKUP_T) or c.path == BACKUP_T else c.args[1]
            if fn.origins_of_operand(parg) == path_origins:
                edges |= fn.edges_of_call_variant(c, "Ok")
        if tg and tg[0] in hashers:
            if fn.origins_of_operand(c.args[1]) == path_origins:
                inner = fn._call_origins(c, (("variant", "Ok"), ("field", 0)), frozenset())
                ok_e = fn.edges_of_call_variant(c, "Ok")
                none_e = fn.edges_of_value_variant(inner, "None")
                edges |= {e for e in none_e}
    if edges and fn.dominated_by_edges(bb, edges):
        return True, trail
    if depth < 8:
        sites = P.lift_once(fn, path_origins)
        if sites == [] and fn.kind != "closure" and fn.id != "main":
            return True, trail + ["(no production caller)"]
        if not sites:
            return False, trail
        for (cf, cbb, po) in sites:
            ok, tr = vacant(P, cf, cbb, po, depth + 1, trail)
            if not ok:
                return False, tr
        return True, trail
    return False, trail


@rule("C08.R2", floor=2)
def c08_r2(ctx):
    """Every rename destination is harmless: it is either a cache path named by the ticket
    handed in with the moved file (C07.R1: absent or byte-identical), or vacant: on every
    path, lifted through callers, the same path was backed up (Ok edge) or found absent
    (Ok(None) edge of the file-hash function)."""
    for c in mutator_sites(ctx.P):
        if c.name != "rename":
            continue
        f = c.fn
        ctx.saw(f)
        ctx.inst("rename in %s" % f.id, c.where)
        cls = classify_path_operand(ctx.P, f, c.args[2])
        if cls and all(x.startswith("rulerdir:cache::SysCache") for x in cls):
            fm = format_of_operand(f, c.args[2])
            t_ok = False
            if fm and len(fm) == 3 and fm[2][0] == "arg":
                org = f.origins_of_operand(fm[2][1])
                if all(is_call(o, "ticket::Ticket::human_readable") for o in org):
                    hr = f.call_at[next(iter(org))[0][2]]
                    t_ok = all(x[0][0] == "param" and len(x) == 1 for x in f.origins_of_operand(hr.args[0]))
            if t_ok and f.id == BACKUP_T:
                ctx.ok()
            else:
                ctx.viol((f.id, "rename-into-cache"), "a rename into the cache whose entry name is not the ticket handed in with the file", c.where)
            continue
        if cls and all(x.startswith(("rulerdir:history::History/+", "rulerdir:current::CurrentFileStates")) and not x.endswith("~") for x in cls):
            # ruler's own state file, replaced by its successor (C11.R4 checks the protocol)
            src_cls = classify_path_operand(ctx.P, f, c.args[1])
            if src_cls == {x + "~" for x in cls}:
                ctx.ok()
            else:
                ctx.viol((f.id, "state-file-replaced-by-foreign"), "a state file is replaced by something other than its freshly written temporary neighbour (source %s)" % sorted(src_cls), c.where)
            continue
        ok, chain = vacant(ctx.P, f, c.bb, f.origins_of_operand(c.args[2]))
        if ok:
            ctx.ok()
        else:
            ctx.viol((f.id, "rename-over-content"), "rename can replace a file whose content was neither backed up nor found absent (call chain %s)" % " <- ".join(chain), c.where, chain=chain)
    # summary: the hash function says Ok(None) only if the path is neither file nor dir
    W = WorkRoles(ctx.P)
    for h in W.hash_fns():
        for fid in ctx.P.reachable_fns([h.id]):
            g = ctx.P.fns[fid]
            for (bb, idx, rv, pl) in g.constructs("std::option::Option", "None"):
                if "Option<ticket::Ticket>" not in g.local_ty(pl["local"])["s"]:
                    continue
                ctx.inst("Ok(None) in %s" % g.id, g.where(bb, idx))
                fe = set()
                de = set()
                for c in sys_calls(g, "is_file"):
                    if all(o[0][0] == "param" for o in g.origins_of_operand(c.args[1])):
                        fe |= g.bool_edges_of_call(c, False)
                for c in sys_calls(g, "is_dir"):
                    if all(o[0][0] == "param" for o in g.origins_of_operand(c.args[1])):
                        de |= g.bool_edges_of_call(c, False)
                if g.dominated_by_edges(bb, fe) and g.dominated_by_edges(bb, de):
                    ctx.ok()
                else:
                    ctx.viol((g.id, "none-for-existing"), "the file-hash function can answer 'absent' for a path that exists (its content would be overwritten)", g.where(bb, idx))


@rule("C08.R3", floor=3)
def c08_r3(ctx):
    """Every create_file is harmless: its path is a state file inside ruler's directory, or
    satisfies the vacancy obligation (download target); io::Write methods are invoked on a
    System file only when it originates from create_file."""
    for c in mutator_sites(ctx.P):
        if c.name != "create_file":
            continue
        f = c.fn
        ctx.inst("create_file in %s" % f.id, c.where)
        cls = classify_path_operand(ctx.P, f, c.args[1])
        if cls and all(x.startswith("rulerdir:history::History/+") or x.startswith("rulerdir:current::CurrentFileStates") or x.startswith("dirparam/+") for x in cls):
            ctx.ok()
            continue
        if cls and all(x.startswith("rulerdir:") and x.endswith("~") for x in cls):
            ctx.ok()    # temporary neighbour of a state file
            continue
        if cls and all(x.startswith("rulerdir:cache") for x in cls):
            ctx.viol((f.id, "create-in-cache"), "create_file on a cache path", c.where)
            continue
        ok, chain = vacant(ctx.P, f, c.bb, f.origins_of_operand(c.args[1]))
        if ok:
            ctx.ok()
        else:
            ctx.viol((f.id, "create-over-content"), "create_file can truncate a file whose content was neither backed up nor found absent (chain %s)" % " <- ".join(chain), c.where)
    # writers
    for f in prod(ctx.P):
        if is_real_system(f):
            continue
        for c in f.calls:
            if c.trait == "std::io::Write" and c.self_ty and ("System>::File" in c.self_ty or "SystemType" in c.self_ty):
                ctx.inst("io::Write::%s in %s" % (c.name, f.id), c.where)
                ro = f.origins_of_operand(c.args[0])
                good = ro and all((is_call(o, "system::System::create_file") and o[1:] == (("variant", "Ok"), ("field", 0))) or
                                  (o[0][0] == "param" and o[-1] == ("field", "file") and "InboxFile" in f.local_ty(o[0][1])["s"]) for o in ro)
                if not good:
                    # coroutine: captured/await-crossing locals appear as fields of the coroutine state; accept a create_file in the same root
                    good = any(x.name == "create_file" for x in sys_calls(f)) and not any(x.name == "open" for x in sys_calls(f))
                if good:
                    ctx.ok()
                else:
                    ctx.viol((f.id, "write-to-opened"), "bytes are written to a file that was not obtained from create_file (an `open`ed file must stay read-only)", c.where)


@rule("C08.R4", floor=3)
def c08_r4(ctx):
    """Targets are displaced before the command may overwrite them: every per-target verdict
    other than AlreadyCorrect (NeedsRebuild / Recovered / Downloaded) is reached only after
    the target path was backed up or found absent; the rebuild function is reached only on
    the Ok edge of the resolution step."""
    for f in prod(ctx.P):
        for var in ("NeedsRebuild", "Recovered", "Downloaded"):
            for (bb, idx, rv, pl) in f.constructs("blob::FileResolution", var):
                ctx.inst("%s in %s" % (var, f.id), f.where(bb, idx))
                # the path this verdict is about: the FileInfo parameter / loop element of f
                cands = set()
                for c in f.calls:
                    if c.path in (RESTORE, DL_RESTORE, BACKUP_T) or (ctx.P.local_targets(c) and ctx.P.local_targets(c)[0].startswith("blob::get_file_ticket")):
                        idxp = {RESTORE: 2, DL_RESTORE: 3, BACKUP_T: 2}.get(c.path, 1)
                        cands |= f.origins_of_operand(c.args[idxp])
                cands = {o for o in cands if o[-1] == ("field", "path")}
                bases = {o[:-1] for o in cands}
                if len(bases) != 1:
                    ctx.viol((f.id, "verdict-path-ambiguous", var), "cannot tell which target this verdict is about", f.where(bb, idx))
                    continue
                ok, chain = vacant(ctx.P, f, bb, cands)
                if ok:
                    ctx.ok()
                else:
                    ctx.viol((f.id, "verdict-without-displacement", var), "a target can be declared %s (and then be overwritten by the command or a restore) without its current content having been backed up or found absent" % var, f.where(bb, idx))
    # handler: rebuild only on the Ok edge of the resolution
    from r_work import handler_fn
    h, hcall, node = handler_fn(ctx)
    R = Roles(ctx.P)
    res = [c for c in h.calls if ctx.P.local_targets(c) and "Vec<blob::FileResolution>" in ctx.P.fns[ctx.P.local_targets(c)[0]].body.get("output", {}).get("s", "")]
    ctx.need(res, "resolution step call in the handler")
    # (several when the step's wrapper was dissolved into the handler: one per way of resolving)
    ok_e = set()
    for rc in res:
        ok_e |= h.edges_of_call_variant(rc, "Ok")
    for c in h.calls:
        if any(R.reaches_exec(t) for t in ctx.P.local_targets(c)):
            ctx.inst("rebuild after resolution", c.where)
            if h.dominated_by_edges(c.bb, ok_e):
                ctx.ok()
            else:
                ctx.viol((h.id, "rebuild-without-resolution"), "the command can run although the resolution step (which displaces old targets) failed or was skipped", c.where)


@rule("C10.R1", floor=3)
def c10_r1(ctx):
    """Clean backs up every existing target: in the clean worker, every iteration over the
    blob's infos whose is_file edge is true reaches a back-up call on that info's path (or
    returns Err); no path skips."""
    R = Roles(ctx.P)
    cl = R.clean_closure()
    hs = R.handler_calls(cl)
    ctx.need(len(hs) == 1, "clean worker call in the clean closure")
    w = ctx.P.fns[ctx.P.local_targets(hs[0])[0]]
    ctx.saw(w)
    lps = w.loops()
    ctx.need(len(lps) == 1, "one loop in the clean worker")
    lp = lps[0]
    ctx.inst("clean loop", w.where(lp["header"]))
    it_ok = all((o[0][0] == "param" and "blob::Blob" in w.local_ty(o[0][1])["s"]) or is_call(o, "blob::Blob::get_file_infos") for o in lp["iter"]) and \
        not any(st[0] == "truncate" for o in lp["iter"] for st in o[1:])
    if not it_ok:
        ctx.viol((w.id, "clean-collection"), "clean does not traverse all targets of the blob (iterates %s)" % sorted(map(fmt_origin, lp["iter"])), w.where(lp["header"]))
    for o in lp["iter"]:
        if is_call(o, "blob::Blob::get_file_infos"):
            gi = w.call_at[o[0][2]]
            if not all(x[0][0] == "param" for x in w.origins_of_operand(gi.args[0])):
                ctx.viol((w.id, "clean-other-blob"), "clean iterates a blob that is not its parameter", gi.where)
    elem_path = {e + (("field", "path"),) for e in lp["elem"]}
    backs = [c for c in w.calls if c.bb in lp["body"] and c.path in (BACKUP_T, BACKUP)]
    for b in backs:
        ctx.inst("back-up site", b.where)
        parg = b.args[2] if b.path == BACKUP_T else b.args[1]
        if w.origins_of_operand(parg) != elem_path:
            ctx.viol((w.id, "clean-backup-other-path"), "clean moves a path that is not this iteration's target", b.where)
    isf = [c for c in sys_calls(w, "is_file") if c.bb in lp["body"] and w.origins_of_operand(c.args[1]) == elem_path]
    if not isf:
        # no existence test: then every iteration must back up
        starts = [lp["some"][1]]
    else:
        starts = [x for (_, x) in w.bool_edges_of_call(isf[0], True)]
    r = w.reach(starts, avoid_blocks=[b.bb for b in backs])
    if lp["header"] in r:
        ctx.viol((w.id, "clean-skips-target"), "an existing target can be left in place by clean (a path reaches the next iteration without a back-up)", w.where(lp["header"]))
    else:
        ctx.ok()
    # the loop is left early only with an error: an absent target must not end the traversal
    for (a, b2) in w.loop_exits(lp):
        r2 = w.reach([b2])
        oks = [(bb, idx) for (bb, idx, rv, pl) in w.constructs("std::result::Result", "Ok") if pl["local"] == 0 and bb in (r2 | {a}) and not w.dominated_by_edges(bb, {lp["none"]})]
        if oks:
            ctx.viol((w.id, "clean-stops-early"), "clean can stop with success before every target of the rule was visited: the remaining targets stay in the workspace and never reach the cache", w.where(a))
    # an Err from back-up is returned, not swallowed
    for b in backs:
        ee = w.edges_of_call_variant(b, "Err")
        if lp["header"] in w.reach([x for (_, x) in ee]):
            ctx.viol((w.id, "clean-error-swallowed"), "a failed back-up is ignored by clean", b.where)
    # the false edge of is_file must not be reachable for directories that exist?  (not decided)


@rule("C10.R2", floor=1)
def c10_r2(ctx):
    """One clean thread per node: the clean closure is spawned once per element of the plan's
    node list (complete traversal), and is handed that node's blob (C09.R3)."""
    R = Roles(ctx.P)
    e = R.entry("clean")
    cl = R.clean_closure()
    sp = [cs for (pf, cs, c2) in R.spawns() if c2 is cl]
    ctx.need(len(sp) == 1, "one spawn site in clean")
    lps = [lp for lp in e.loops() if sp[0].bb in lp["body"]]
    ctx.inst("clean spawn loop", sp[0].where)
    if len(lps) != 1:
        ctx.viol((e.id, "clean-spawn-shape"), "clean does not spawn exactly one thread per plan element", sp[0].where)
        return
    lp = lps[0]
    if any(st[0] == "truncate" for o in lp["iter"] for st in o[1:]) or not all(("field", "nodes") in o for o in lp["iter"]):
        ctx.viol((e.id, "clean-plan-truncated"), "clean does not traverse the whole node list (iterates %s)" % sorted(map(fmt_origin, lp["iter"])), e.where(lp["header"]))
    elif not e.every_iteration_calls(lp, [sp[0].bb]) or e.loop_exits(lp):
        ctx.viol((e.id, "clean-node-skipped"), "a node of the plan can be skipped by clean", sp[0].where)
    else:
        ctx.ok()


@rule("C10.R3", floor=2)
def c10_r3(ctx):
    """A missing target with a remembered hash is restored by rename: the Ok(None) arm of the
    per-target resolution reaches the local-cache restore (ticket = remembered ticket, path
    = this target's path); a downloaded file gets set_is_executable(path, remembered
    executable flag) on the Done edge."""
    W = WorkRoles(ctx.P)
    for f in [x for x in prod(ctx.P) if x.calls_to(RESTORE)]:
        ctx.saw(f)
        for c in f.calls_to(RESTORE):
            ctx.inst("local restore", c.where)
            to = f.origins_of_operand(c.args[1])
            po = f.origins_of_operand(c.args[2])
            t_ok = to and all(o[0][0] == "param" and o[-1] == ("field", "ticket") and "FileState" in f.local_ty(o[0][1])["s"] for o in to)
            p_ok = po and all(o[0][0] == "param" and o[-1] == ("field", "path") and "FileInfo" in f.local_ty(o[0][1])["s"] for o in po)
            if not (t_ok and p_ok):
                ctx.viol((f.id, "restore-args"), "the restore is not (remembered ticket -> this target's path)", c.where)
            else:
                ctx.ok()
            # lifted through every caller, the ticket is the history's remembered entry (get_info of
            # the looked-up vector), never the per-path file state of the blob
            for t in to:
                for (fid, lo) in ctx.P.lift(f, t):
                    ctx.inst("restored ticket comes from", "%s: %s" % (fid, fmt_origin(lo)))
                    if remembered_entry_call(ctx.P, lo) and lo[-1] == ("field", "ticket"):
                        ctx.ok()
                    else:
                        ctx.viol((fid, "restore-foreign-ticket"), "a target is restored from the cache entry named by something other than the remembered hash of the history lookup (derives from %s): after a clean the wrong version - or nothing - is brought back" % fmt_origin(lo), c.where)
        for d in f.calls_to(DL_RESTORE):
            for t in f.origins_of_operand(d.args[1]):
                for (fid, lo) in ctx.P.lift(f, t):
                    if not (remembered_entry_call(ctx.P, lo) and lo[-1] == ("field", "ticket")):
                        ctx.viol((fid, "download-foreign-ticket"), "a target is downloaded under a name other than the remembered hash (derives from %s)" % fmt_origin(lo), d.where)
        for d in f.calls_to(DL_RESTORE):
            done = f.edges_of_call_variant(d, "Done")
            sx = sys_calls(f, "set_is_executable")
            ctx.inst("download", d.where)
            good = False
            for s in sx:
                fo = f.origins_of_operand(s.args[2])
                po = f.origins_of_operand(s.args[1])
                if f.dominated_by_edges(s.bb, done) and all(o[-1] == ("field", "executable") and "FileState" in f.local_ty(o[0][1])["s"] for o in fo) \
                        and po == f.origins_of_operand(d.args[3]):
                    # every Done path passes it
                    r = f.reach([x for (_, x) in done], avoid_blocks=[s.bb])
                    if not any(b in r for b in f.return_blocks):
                        good = True
            if good:
                ctx.ok()
            else:
                ctx.viol((f.id, "download-permission"), "a downloaded target does not get its remembered executable permission", d.where)
    # a file renamed out of the cache keeps the permission it was stored with: the only
    # permission changes ruler makes are those of freshly downloaded files
    for f in prod(ctx.P):
        if is_real_system(f) or f.body["span"]["file"].endswith(("system/fake.rs", "system/mod.rs", "system/util.rs")):
            continue
        for s in sys_calls(f, "set_is_executable"):
            ctx.inst("permission change in %s" % f.id, s.where)
            done = set()
            for d in f.calls_to(DL_RESTORE):
                done |= f.edges_of_call_variant(d, "Done")
            if done and f.dominated_by_edges(s.bb, done):
                ctx.ok()
            else:
                ctx.viol((f.id, "permission-changed-outside-download"), "the executable permission of a target is set on a path that did not just download it (e.g. after a restore by rename, which keeps the file's own permission): a target brought back from the cache can lose or gain its executable bit", s.where)
    # the None arm reaches the restore before any NeedsRebuild: C02.R4


@rule("C11.R1", floor=2)
def c11_r1(ctx):
    """User data moves by single rename: no function reachable from build/clean both reads a
    target/cache path (System::open) and creates a file on a target/cache path; the only
    create_file on a target path is the downloader (network -> target)."""
    R = Roles(ctx.P)
    for c in mutator_sites(ctx.P):
        if c.name == "rename":
            ctx.inst("rename", c.where)
            ctx.ok()
    reach = ctx.P.reachable_fns([R.entry("build").id, R.entry("clean").id])
    for fid in reach:
        f = ctx.P.fns[fid]
        if is_real_system(f):
            continue
        opens = sys_calls(f, "open")
        creates = sys_calls(f, "create_file")
        if opens and creates:
            # same function opens and creates: a copy loop?
            for cr in creates:
                cls = classify_path_operand(ctx.P, f, cr.args[1])
                if any(x.startswith("fileinfo") or x.startswith("rulerdir:cache") for x in cls):
                    ctx.viol((f.id, "copy-instead-of-rename"), "file content is copied (open + create_file) instead of moved by rename: a kill leaves a torn copy", cr.where)
    for c in mutator_sites(ctx.P):
        if c.name == "create_file":
            cls = classify_path_operand(ctx.P, c.fn, c.args[1])
            if any(x.startswith("fileinfo") for x in cls) and not c.fn.id.startswith("downloader::download_file"):
                ctx.viol((c.fn.id, "create-target"), "a target file is created by ruler itself outside the downloader", c.where)


@rule("C11.R2", floor=1)
def c11_r2(ctx):
    """The file-state table is written after the join loop (dominated by its exhaustion), and
    only there in build."""
    R = Roles(ctx.P)
    e = R.entry("build")
    j = e.calls_to(JOIN)[0]
    jl = [lp for lp in e.loops() if j.bb in lp["body"]][0]
    tf = e.calls_to("current::CurrentFileStates::<SystemType>::to_file")
    ctx.need(tf, "to_file call in build")
    for c in tf:
        ctx.inst("table write", c.where)
        if e.dominated_by_edges(c.bb, {jl["none"]}) and c.bb not in jl["body"]:
            ctx.ok()
        else:
            ctx.viol((e.id, "table-written-early"), "the file-state table is written before every thread was joined", c.where)
    # ... and on every path: no return after the join loop's exhaustion bypasses the write
    r = e.reach([jl["none"][1]], avoid_blocks=[c.bb for c in tf])
    if any(b in r for b in e.return_blocks):
        ctx.viol((e.id, "table-write-skipped"), "after all threads were joined the build can return without writing the file-state table: what the finished rules observed (and the files they moved into place) is forgotten, so the next build trusts stale (hash, mtime) pairs", tf[0].where)
    # every successful result's blob is put back before that
    ib = e.calls_to("current::CurrentFileStates::<SystemType>::insert_blob")
    if not ib:
        ctx.viol((e.id, "blob-not-reinserted"), "file states observed by the threads are never put back into the table", j.where)


@rule("C11.R4", floor=2)
def c11_r4(ctx):
    """State files are replaced atomically: a persistent state file that a strict decoder
    reads back must not be truncated in place - the path given to create_file must differ
    from the path the reader opens and be followed, on the Ok edge of the write, by a
    rename onto it."""
    # writer functions: create_file + write_all where the bytes come from bincode::serialize
    for c in mutator_sites(ctx.P):
        if c.name != "create_file":
            continue
        f = c.fn
        cls = classify_path_operand(ctx.P, f, c.args[1])
        in_state_module = f.id.startswith(("history::History", "current::"))
        if not in_state_module and (not cls or not all(x.startswith("rulerdir:history") or x.startswith("rulerdir:current") for x in cls)):
            continue
        ctx.inst("state file written in %s" % f.id, c.where)
        temp = bool(cls) and all(x.endswith("~") for x in cls)
        # is there a rename in f (or its callers, for helper functions) from this path onto another, after the write?
        ok = False
        rn = sys_calls(f, "rename")
        for r in rn:
            if f.origins_of_operand(r.args[1]) == f.origins_of_operand(c.args[1]) and c.bb in {b for b in f.reach([0]) if r.bb in f.reach([b])}:
                w = [x for x in f.calls if x.trait == "std::io::Write"]
                w_ok = set()
                for x in w:
                    w_ok |= f.edges_of_call_variant(x, "Ok")
                dst = classify_path_operand(ctx.P, f, r.args[2])
                if w and f.dominated_by_edges(r.bb, w_ok) and temp and {x + "~" for x in dst} == cls:
                    ok = True
        if not ok:
            # helper: the caller may create a temp name and rename afterwards (every caller must)
            callers = [cs for cs in ctx.P.callers.get(f.id, []) if not cs.fn.body.get("in_test")]
            n_ok = 0
            for cs in callers:
                g = cs.fn
                for r in sys_calls(g, "rename"):
                    if g.dominated_by_edges(r.bb, g.edges_of_call_variant(cs, "Ok")):
                        po = [a for a in cs.args if ty_is_path(g, a)]
                        dst = classify_path_operand(ctx.P, g, r.args[2])
                        here = classify_path_operand(ctx.P, g, po[0]) if po else set()
                        if po and g.origins_of_operand(r.args[1]) == g.origins_of_operand(po[0]) and here and all(x.endswith("~") for x in here) \
                                and {x + "~" for x in dst} == here:
                            n_ok += 1
                            break
            if callers and n_ok == len(callers):
                ok = True
        # a temporary left behind by a killed run is overwritten, not respected: no test of its
        # presence decides whether the state gets written
        tests = [(f, t, c.args[1], c.bb) for t in sys_calls(f, "is_file") + sys_calls(f, "is_dir")]
        for cs in [cs for cs in ctx.P.callers.get(f.id, []) if not cs.fn.body.get("in_test")]:
            po = [a for a in cs.args if ty_is_path(cs.fn, a)]
            if po:
                tests += [(cs.fn, t, po[0], cs.bb) for t in sys_calls(cs.fn, "is_file") + sys_calls(cs.fn, "is_dir")]
        for (g, t, pathop, wbb) in tests:
            tcls = classify_path_operand(ctx.P, g, t.args[1])
            gates = any(wbb not in g.reach([x for (_, x) in g.bool_edges_of_call(t, v)]) for v in (True, False) if g.bool_edges_of_call(t, v))
            if gates and g.origins_of_operand(t.args[1]) == g.origins_of_operand(pathop) and tcls and all(x.endswith("~") for x in tcls):
                ctx.viol((g.id, "stale-temporary-honoured"), "the presence of the temporary file decides whether the state is written: a temporary left by a killed run is never cleared, so every later write of this state fails (the build aborts until someone deletes the file)", t.where)
        if ok:
            ctx.ok()
        else:
            key_fn = f.id
            ctx.viol((key_fn, "state-file-truncated-in-place"), "a state file is created/truncated at its final path and then written: a kill in between leaves a file the strict reader rejects, which aborts every later build", c.where)


@rule("C06.R1", floor=3)
def c06_r1(ctx):
    """Shared-state inventory: the captured types of every closure given to thread::spawn
    contain no Arc/Rc/Mutex/RwLock/Atomic/RefCell/Cell and no borrow; no `static mut` and no
    thread_local is referenced - threads communicate only through the channels and the
    file system behind SystemType."""
    R = Roles(ctx.P)
    banned = ("Arc<", "Rc<", "Mutex<", "RwLock<", "Atomic", "RefCell<", "Cell<", "Condvar", "Barrier", "OnceLock", "OnceCell")
    for (pf, cs, cl) in R.spawns():
        ctx.inst("spawned closure %s" % cl.id, cs.where)
        bad = zero.shared_captures(cl)
        if bad:
            ctx.viol((cl.id, "shared-capture"), "a thread closure captures shared mutable state (%s): results may depend on scheduling" % "; ".join(bad), cs.where)
        else:
            ctx.ok()
    for f in prod(ctx.P):
        for b in f.blocks:
            if b["cleanup"]:
                continue
            for i, s in enumerate(b["stmts"]):
                if s["k"] == "assign" and s["rv"]["k"] == "other" and ("ThreadLocalRef" in s["rv"].get("text", "") or "static mut" in s["rv"].get("text", "")):
                    ctx.viol((f.id, "static-state"), "static / thread-local state referenced", f.where(b["i"], i))
    for c in ctx.P.facts.consts:
        pass


@rule("C08.R5", floor=1)
def c08_r5(ctx):
    """A back-up that did not happen is never reported as done: in the cache's back-up functions
    the Err edge of the rename (target -> cache entry) leads to an Err result; the only excuse
    for Ok is a re-test showing that the *source* of the rename is gone - a test of the
    destination says nothing about the file that was to be kept."""
    n = 0
    for f in prod(ctx.P):
        if not f.body["span"]["file"].endswith("cache.rs") or "back_up" not in f.id:
            continue
        for c in sys_calls(f, "rename"):
            n += 1
            ctx.saw(f)
            ctx.inst("back-up rename in %s" % f.id, c.where)
            err_e = f.edges_of_call_variant(c, "Err")
            src = f.origins_of_operand(c.args[1])
            excuse = set()
            for g in sys_calls(f, "is_file"):
                if f.origins_of_operand(g.args[1]) == src:
                    excuse |= f.bool_edges_of_call(g, False)
            r = f.reach([x for (_, x) in err_e], avoid_edges=excuse)
            oks = [(bb, idx) for (bb, idx, rv, pl) in f.constructs("std::result::Result", "Ok") if pl["local"] == 0 and bb in r]
            if oks:
                ctx.viol((f.id, "failed-backup-reported-done"), "a failed rename into the cache can be answered with Ok without the file to be kept having been found gone: the caller takes the path for free and overwrites what may be the last copy", f.where(oks[0][0], oks[0][1]))
            else:
                ctx.ok()
    ctx.need(n >= 1, "the back-up rename of the cache")


@rule("C06.R4", floor=0)
def c06_r4(ctx):
    """Rule threads create nothing on a test-then-create basis: in code reachable from a rule
    thread, a `create_dir` (or `create_file`) on the false edge of an `is_dir` / `is_file` test of
    the same path is a race between sibling threads whose targets share that directory - both see
    it missing, the second creation fails (or, on the in-memory system, replaces the directory the
    first one has meanwhile filled).  The pinned tree has no such site (directories are made by
    the commands, or by the main thread before any rule thread starts)."""
    R = Roles(ctx.P)
    thread_reach = set()
    for (pf, cs, cl) in R.spawns():
        thread_reach |= ctx.P.reachable_fns([cl.id])
    for fid in sorted(thread_reach):
        f = ctx.P.fns[fid]
        if f.body.get("in_test") or is_real_system(f) or f.body["span"]["file"].endswith("system/fake.rs"):
            continue
        for c in sys_calls(f, "create_dir", "create_file"):
            po = f.origins_of_operand(c.args[1])
            tests = [g for g in sys_calls(f, "is_dir", "is_file") if f.origins_of_operand(g.args[1]) == po]
            for g in tests:
                if f.dominated_by_edges(c.bb, f.bool_edges_of_call(g, False)):
                    ctx.inst("test-then-create in %s" % fid, c.where)
                    ctx.viol((fid, "test-then-create", c.name), "%s follows an `%s` test of the same path in code run by the rule threads: two rules whose targets share that directory can both find it missing, and the outcome of the build then depends on which thread creates it second" % (c.name, g.name), c.where)
    ctx.ok()


@rule("C06.R3", floor=1)
def c06_r3(ctx):
    """No check-then-act on the contended cache directory: a mutating call on a cache entry
    that is guarded by an existence check (is_file true edge) can lose the race against a
    sibling thread executing the same function; its Err edge must therefore yield the same
    result variant as the check's false edge, or re-test the path and do so - mapping it
    unconditionally to a hard error is the violation."""
    R = Roles(ctx.P)
    thread_reach = set()
    for (pf, cs, cl) in R.spawns():
        thread_reach |= ctx.P.reachable_fns([cl.id])
    cands = []
    for fid in sorted(thread_reach):
        f0 = ctx.P.fns[fid]
        if f0.body.get("in_test") or is_real_system(f0):
            continue
        for c0 in sys_calls(f0, "rename", "open", "get_modified", "is_executable", "list_dir", "set_is_executable"):
            cands.append(c0)
    for c in cands:
        f = c.fn
        # the (source) path operated on is a cache entry?
        cls = classify_path_operand(ctx.P, f, c.args[1])
        if not (cls and all(x.startswith("rulerdir:cache::SysCache/+") for x in cls)):
            continue
        ctx.inst("%s on a cache entry in %s" % (c.name, f.id), c.where)
        src = f.origins_of_operand(c.args[1])
        guards = [g for g in sys_calls(f, "is_file") if f.origins_of_operand(g.args[1]) == src and
                  f.dominated_by_edges(c.bb, f.bool_edges_of_call(g, True))]
        if not guards:
            if c.name == "rename" and not any(f.origins_of_operand(g.args[1]) == src for g in sys_calls(f, "is_file") if f.dominated_by_blocks(c.bb, [g.bb])):
                # taking an entry out of the cache without having seen it: every plain miss then
                # goes through "rename failed, look again", and an entry a sibling's back-up puts there
                # in between turns the miss into a hard error
                errv = _result_variants(f, [x for (_, x) in f.edges_of_call_variant(c, "Err")], deep=True)
                if any("Error" in v for v in errv):
                    ctx.viol((f.id, "unguarded-take", c.name), "a cache entry is renamed out without an `is_file` test before it: a miss is told from a real failure only by looking again after the rename failed, and a sibling thread that backs up a file with the same content in between makes the miss a hard error (%s)" % sorted(errv), c.where)
                    continue
            ctx.ok()
            continue
        g = guards[0]
        false_targets = [x for (_, x) in f.bool_edges_of_call(g, False)]
        false_results = _result_variants(f, false_targets, deep=True)
        err_edges = f.edges_of_call_variant(c, "Err")
        err_targets = [x for (_, x) in err_edges]
        err_results = _result_variants(f, err_targets, deep=True)
        # accepted repaired shape: on the Err edge the path is re-tested and the `gone` answer gives the false-edge result
        retest = [g2 for g2 in sys_calls(f, "is_file") if g2 is not g and f.origins_of_operand(g2.args[1]) == src and f.dominated_by_edges(g2.bb, err_edges)]
        ok = False
        if err_results and err_results <= false_results:
            ok = True
        for g2 in retest:
            gone = _result_variants(f, [x for (_, x) in f.bool_edges_of_call(g2, False)], deep=True)
            if gone and gone <= false_results:
                ok = True
        if ok:
            ctx.ok()
        else:
            ctx.viol((f.id, "check-then-act", "is_file->" + c.name), "the cache entry can be taken by a sibling thread between is_file and %s; the %s's error then yields %s while a missing entry yields %s: two rules needing byte-identical files fail each other depending on scheduling" % (c.name, c.name, sorted(err_results), sorted(false_results)), c.where)


def _result_variants(f, starts, deep=False):
    """Variant names assigned to _0 (directly) in blocks reachable from starts before return."""
    out = set()
    r = f.reach(starts)
    for b in r:
        for i, s in enumerate(f.blocks[b]["stmts"]):
            if s["k"] == "assign" and s["place"]["local"] == 0 and not s["place"]["proj"] and s["rv"]["k"] == "aggregate" and s["rv"]["kind"]["k"] == "adt":
                v = s["rv"]["kind"]["variant"]
                if deep and s["rv"]["kind"]["adt"] == "std::result::Result" and s["rv"]["ops"]:
                    inner = set()
                    for o in f.origins_of_operand(s["rv"]["ops"][0]):
                        if o[0][0] == "agg" and len(o) == 1:
                            inner.add(o[0][4].split("::")[-1])
                    v = "%s(%s)" % (v, "|".join(sorted(inner)) if inner else "_")
                out.add(v)
    return out


@rule("C06.R3b", floor=2)
def c06_r3b(ctx):
    """Absence of a cache entry is never an error for a rule thread: a sibling thread may
    legally take or replace an entry at any moment, so in code reachable from a rule thread
    no `absent` edge of an existence test on an entry path (<cache dir>/<ticket>) may lead
    to a hard-error result; the restore's NotThere is mapped by its caller to `try the next
    source, else NeedsRebuild`, never to Err."""
    R = Roles(ctx.P)
    thread_reach = set()
    for (pf, cs, cl) in R.spawns():
        thread_reach |= ctx.P.reachable_fns([cl.id])
    HARD = {"Err", "SystemError", "CacheDirectoryMissing"}
    for fid in sorted(thread_reach):
        f = ctx.P.fns[fid]
        if f.body.get("in_test") or is_real_system(f):
            continue
        for g in sys_calls(f, "is_file", "is_dir"):
            cls = classify_path_operand(ctx.P, f, g.args[1])
            if not (cls and all(x.startswith("rulerdir:cache::SysCache/+") for x in cls)):
                continue
            ctx.inst("existence test on a cache entry in %s" % f.id, g.where)
            fe = [x for (_, x) in f.bool_edges_of_call(g, False)]
            # results decided on the absent edge before any further file-system operation
            rv = set()
            seen = set()
            work = list(fe)
            while work:
                b = work.pop()
                if b in seen:
                    continue
                seen.add(b)
                for st in f.blocks[b]["stmts"]:
                    if st["k"] == "assign" and st["place"]["local"] == 0 and not st["place"]["proj"] and st["rv"]["k"] == "aggregate" and st["rv"]["kind"]["k"] == "adt":
                        rv.add(st["rv"]["kind"]["variant"])
                if b in f.call_at and (f.call_at[b].trait == SYS or call_effects(ctx.P, f.call_at[b])):
                    continue        # a further operation decides
                work.extend(f.succ[b])
            if rv & HARD == {"Err"} and "Result<" in f.body.get("output", {}).get("s", ""):
                # an Err whose variant every thread-reachable caller maps to a benign verdict is not a hard error
                errv = set()
                for b0 in seen:
                    for st in f.blocks[b0]["stmts"]:
                        if st["k"] == "assign" and st["rv"]["k"] == "aggregate" and st["rv"]["kind"]["k"] == "adt" and st["rv"]["kind"]["adt"] not in ("std::result::Result",):
                            errv.add(st["rv"]["kind"]["variant"])
                callers = [cs for cs in ctx.P.callers.get(f.id, []) if cs.fn.id in thread_reach and not cs.fn.body.get("in_test")]
                benign = bool(callers) and bool(errv)
                for cs in callers:
                    g2 = cs.fn
                    payload = g2._call_origins(cs, (("variant", "Err"), ("field", 0)), frozenset())
                    for v in errv:
                        ev = g2.edges_of_value_variant(payload, v)
                        res = _result_variants(g2, [x for (_, x) in ev]) if ev else {"?"}
                        if not res or res & (HARD | {"?"}):
                            benign = False
                if benign:
                    ctx.ok()
                    continue
            if rv & HARD:
                ctx.viol((f.id, "absent-entry-is-error", g.name), "finding a cache entry absent yields a hard error (%s): a sibling rule thread that needs the same bytes may have taken the entry, so verdict and final files depend on scheduling" % sorted(rv & HARD), g.where)
            else:
                ctx.ok()
    f = ctx.P.fn(RESTORE)
    nts = f.constructs("cache::RestoreResult", "NotThere")
    ctx.need(nts, "RestoreResult::NotThere construction")
    for cs in ctx.P.callers.get(RESTORE, []):
        g = cs.fn
        if g.body.get("in_test"):
            continue
        ctx.inst("NotThere handled in %s" % g.id, cs.where)
        nt = g.edges_of_call_variant(cs, "NotThere")
        if not nt:
            ctx.viol((g.id, "notthere-unhandled"), "the restore's NotThere verdict is not distinguished", cs.where)
            continue
        r = g.reach([x for (_, x) in nt])
        errs = [(bb, idx) for (bb, idx, rv, pl) in g.constructs("std::result::Result", "Err") if pl["local"] == 0 and bb in r and g.dominated_by_edges(bb, nt)]
        # an Err return whose every path comes through NotThere with no further operation
        hard = []
        for (bb, idx) in errs:
            back = {b for b in r if bb in g.reach([b])}
            if not any(b in g.call_at and (g.call_at[b].trait == SYS or ctx.P.local_targets(g.call_at[b])) for b in back):
                hard.append((bb, idx))
        if hard:
            ctx.viol((g.id, "notthere-is-error"), "a missing cache entry makes the rule fail instead of being rebuilt", g.where(*hard[0]))
        else:
            ctx.ok()


@rule("C11.R5", floor=3)
def c11_r5(ctx):
    """Directory initialisation recovers from a partial creation: every create_dir(p) is
    guarded by the `absent` edge of is_dir on that same path p (not of another directory), so
    a run killed between two create_dir calls is completed by the next run."""
    for c in mutator_sites(ctx.P):
        if c.name != "create_dir":
            continue
        f = c.fn
        ctx.saw(f)
        ctx.inst("create_dir in %s" % f.id, c.where)
        po = f.origins_of_operand(c.args[1])
        guards = set()
        other = []
        for g in sys_calls(f, "is_dir"):
            fe = f.bool_edges_of_call(g, False)
            if f.origins_of_operand(g.args[1]) == po:
                guards |= fe
            elif f.dominated_by_edges(c.bb, fe):
                other.append(g)
        # the guard may be stored in a bool first: `let missing = !is_dir(p); ... if missing {create_dir(p)}`
        for l, defs in f.defs.items():
            if f.local_ty(l)["s"] != "bool" or not f.is_user(l):
                continue
            srcs = set()
            for (kind, bb, idx, place, rv) in defs:
                if kind == "assign":
                    for o in f._rv_origins(rv, (), bb, idx, frozenset()):
                        srcs.add(o)
            # bool = Not(call is_dir(p))
            for o in srcs:
                if o[0][0] == "unop" and o[0][4] == "Not":
                    st = f.blocks[o[0][2]]["stmts"][o[0][3]]["rv"]
                    for o2 in f.origins_of_operand(st["a"]):
                        if o2[0][0] == "call" and o2[0][3] == "system::System::is_dir":
                            g = f.call_at[o2[0][2]]
                            for bb2 in f.live:
                                info = f.switch_info(bb2)
                                if info and info["kind"] in ("value", "local") and info.get("place", {}).get("local", info.get("local")) == l:
                                    e = f._bool_edges(info, True)
                                    if f.origins_of_operand(g.args[1]) == po:
                                        guards |= e
                                    elif f.dominated_by_edges(c.bb, e):
                                        other.append(g)
        if guards and f.dominated_by_edges(c.bb, guards):
            ctx.ok()
        elif other:
            ctx.viol((f.id, "create-dir-guarded-by-other-path"), "a directory is created depending on whether a *different* directory exists: after a kill between the two creations the missing one is never created and every later build fails", c.where)
        else:
            ctx.ok()    # unconditional creation (errors are reported by the caller) is not this rule's concern


@rule("C07.R5", floor=3)
def c07_r5(ctx):
    """The cache directory holds nothing but cache entries: the cache, the history and the
    file-state table live at pairwise different paths `<directory>/<literal>` (a history kept
    in the cache directory would be a cache entry not named after the hash of its bytes, and
    would vanish with the cache)."""
    lits = {}
    for owner in ("cache::SysCache", "history::History", "current::CurrentFileStates"):
        for f in prod(ctx.P):
            if f.body.get("derived"):
                continue
            for (bb, idx, rv, pl) in f.constructs(owner):
                names = rv["kind"]["fields"]
                pop = rv["ops"][names.index("path")]
                for lit in _owner_literals(ctx.P, f, pop, 0):
                    lits.setdefault(owner, set()).add(lit)
    for owner, ls in lits.items():
        ctx.inst("%s lives at <directory>%s" % (owner, sorted(x.decode("utf8", "replace") if isinstance(x, bytes) else str(x) for x in ls)))
    ctx.need(len(lits) == 3, "path literals of the three owners")
    owners = sorted(lits)
    bad = False
    for i, a in enumerate(owners):
        if len(lits[a]) != 1 or None in lits[a]:
            ctx.viol((a, "owner-path-ambiguous"), "%s can be rooted at several places / at a path that is not `<directory>/<literal>`" % a)
            bad = True
        for b2 in owners[i + 1:]:
            if lits[a] & lits[b2]:
                ctx.viol((a, "owners-share-a-path", b2), "%s and %s are rooted at the same path: ruler's state files would sit among the cache entries (and share their fate)" % (a, b2))
                bad = True
            else:
                for x in lits[a]:
                    for y in lits[b2]:
                        if x and y and (x.startswith(y + b"/") or y.startswith(x + b"/")):
                            ctx.viol((a, "owner-inside-owner", b2), "%s and %s are nested in each other" % (a, b2))
                            bad = True
    if not bad:
        ctx.ok()


def _owner_literals(P, fn, op, depth):
    """Literal suffixes of `format!("{}<lit>", directory)` reaching an owner's path field."""
    fm = format_of_operand(fn, op)
    if fm is not None:
        if len(fm) == 2 and fm[0][0] == "arg" and fm[1][0] == "lit":
            return {fm[1][1]}
        return {None}
    out = set()
    for o in fn.origins_of_operand(op):
        if o[0][0] == "param" and len(o) == 1 and depth < 6 and fn.kind != "closure":
            sites = [c for c in P.callers.get(fn.id, []) if not c.fn.body.get("in_test")]
            if fn.body.get("derived") or not sites:
                continue
            for cs in sites:
                out |= _owner_literals(P, cs.fn, cs.args[o[0][1] - 1], depth + 1)
        elif o[0][0] == "param" and o[-1] == ("field", "path"):
            continue      # a clone of an existing owner
        else:
            out.add(None)
    return out


@rule("C06.R5", floor=1)
def c06_r5(ctx):
    """An entry taken out of the cache stays out for the rest of the rule's handling: in the
    function that handles one rule, nothing that is reachable *after* the call that resolves the
    targets (the only place that restores from the cache) moves a file into the cache.  The
    loser of a race for a shared entry decides between "gone" and "malfunction" by looking at
    the entry again after its failed rename; an entry that reappears (a recovered target put
    back before the command runs) turns a lost race into a hard error, in one interleaving
    only."""
    W = WorkRoles(ctx.P)
    h = ctx.P.fns.get("work::handle_rule_node")
    ctx.need(h is not None, "the function handling one rule")
    ctx.saw(h)

    def reaches(c, names):
        tg = ctx.P.local_targets(c)
        fns = ctx.P.reachable_fns(tg) if tg else set()
        return any(ctx.P.fns[x].calls_to(n) for x in fns for n in names) or any(c.path == n for n in names)
    restore = ("cache::SysCache::<SystemType>::restore_file",)
    backup = ("cache::SysCache::<SystemType>::back_up_file_with_ticket", "cache::SysCache::<SystemType>::back_up_file")
    rs = [c for c in h.calls if reaches(c, restore)]
    ctx.need(rs, "the call in %s that can restore from the cache" % h.id)
    for r in rs:
        ctx.inst("restoring call %s" % r.path, r.where)
        after = set(h.reach([r.bb])) - {r.bb}
        bad = [c for c in h.calls if c.bb in after and c.bb != r.bb and reaches(c, backup)]
        if bad:
            ctx.viol((h.id, "backup-after-restore"), "after the targets were resolved (and possibly restored from the cache) a file is moved into the cache again (%s): an entry another rule's thread has just seen vanish reappears, and that thread's re-test after its failed rename answers `malfunction` instead of `not there`" % bad[0].path, bad[0].where)
        else:
            ctx.ok()
