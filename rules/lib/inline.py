"""Helper-extraction tolerance: a function that does not exist on the pinned tree (see
known_functions.json; renames are canonicalised first) is a helper introduced by a later
edit.  Its body is inlined at every direct call site before any rule runs, so that moving
code into a helper does not change what the rules see.  Inlining is semantics-preserving;
recursive helpers, helpers reached only through trait dispatch or as closures are left alone."""
import copy
import json
import os

HERE = os.path.dirname(os.path.dirname(os.path.abspath(__file__)))


def _rewrite_locals(x, lm):
    if isinstance(x, dict):
        if "local" in x and isinstance(x["local"], int) and ("proj" in x or x.get("k") == "index"):
            x["local"] = lm[x["local"]]
        for k, v in x.items():
            if k == "local":
                continue
            _rewrite_locals(v, lm)
    elif isinstance(x, list):
        for v in x:
            _rewrite_locals(v, lm)


def _rewrite_blocks(t, bm):
    k = t["k"]
    for key in ("target", "unwind", "otherwise", "resume", "drop"):
        if key in t and isinstance(t[key], int):
            t[key] = bm.get(t[key], t[key]) if not (key == "unwind") else None
    if k == "switch":
        t["targets"] = [[v, bm[b]] for v, b in t["targets"]]


def inline_call(caller, bb, callee):
    """Inline `callee` (a body dict) at the call terminating block bb of `caller` (in place)."""
    blk = caller["blocks"][bb]
    call = blk["term"]
    nl = len(caller["locals"])
    lm = {}
    for l in callee["locals"]:
        lm[l["i"]] = nl + l["i"]
        nlc = dict(l)
        nlc["i"] = nl + l["i"]
        caller["locals"].append(nlc)
    # a result written straight into a whole local of the caller: the helper's return place *is*
    # that local (so `_0 = Ok(..)` inside the helper stays a construction of the caller's _0)
    direct = not call["dest"]["proj"]
    if direct:
        lm[0] = call["dest"]["local"]
    nb = len(caller["blocks"])
    live = [b for b in callee["blocks"] if not b["cleanup"]]
    bm = {b["i"]: nb + 1 + k for k, b in enumerate(live)}
    span = call["span"]
    # glue block: bind parameters
    stmts = []
    for k in range(callee["arg_count"]):
        if k < len(call["args"]):
            stmts.append({"k": "assign", "place": {"local": lm[k + 1], "proj": []}, "rv": {"k": "use", "op": copy.deepcopy(call["args"][k])}, "span": span})
    glue = {"i": nb, "cleanup": False, "stmts": stmts, "term": {"k": "goto", "target": bm[0], "span": span}}
    new_blocks = [glue]
    cont = call["target"]
    for b in live:
        c = copy.deepcopy(b)
        c["i"] = bm[b["i"]]
        _rewrite_locals(c, lm)
        t = c["term"]
        if t["k"] == "return":
            if not direct:
                c["stmts"].append({"k": "assign", "place": copy.deepcopy(call["dest"]), "rv": {"k": "use", "op": {"k": "move", "place": {"local": lm[0], "proj": []}}}, "span": t["span"]})
            c["term"] = {"k": "goto", "target": cont, "span": t["span"]} if cont is not None else {"k": "unreachable", "span": t["span"]}
        else:
            for key in ("target", "otherwise", "resume"):
                if key in t and isinstance(t[key], int):
                    t[key] = bm.get(t[key], t[key])
            if "unwind" in t:
                t["unwind"] = None
            if "drop" in t and isinstance(t.get("drop"), int):
                t["drop"] = bm.get(t["drop"])
            if t["k"] == "switch":
                t["targets"] = [[v, bm[x]] for v, x in t["targets"]]
        new_blocks.append(c)
    caller["blocks"].extend(new_blocks)
    blk["term"] = {"k": "goto", "target": nb, "span": span}
    # debug names of the helper's variables
    # (a parameter of the helper is only another name for the caller's argument: it gets no
    # name of its own, so that "which variable is this" still answers with the caller's)
    for dv in callee.get("debug", []):
        v = copy.deepcopy(dv)
        if "local" in v["value"]:
            if 1 <= v["value"]["local"] <= callee.get("arg_count", 0) and not v["value"]["proj"]:
                continue
            _rewrite_locals(v, lm)
            v["arg"] = None
            caller["debug"].append(v)


def _last_generic(ty):
    """`Result<A, B<C, D>>` -> `B<C, D>`"""
    if not ty.endswith(">") or "<" not in ty:
        return None
    inner = ty[ty.index("<") + 1:-1]
    depth = 0
    last = 0
    for i, ch in enumerate(inner):
        if ch in "<(":
            depth += 1
        elif ch in ">)":
            depth -= 1
        elif ch == "," and depth == 0:
            last = i + 1
    return inner[last:].strip()


def expose_error_conversions(raw):
    """`x?` converts the error with `From::from` inside std's `from_residual`, where no rule can
    see it.  Where the two error types differ and the crate has an `impl From<E1> for E2`, the
    conversion is written out at the `?`: `Err(<E2 as From<E1>>::from(e))` (and is then inlined
    like any helper if the impl is new)."""
    ids = {b["id"] for b in raw["bodies"]}
    n = 0
    for body in raw["bodies"]:
        if body["kind"] == "promoted":
            continue
        for blk in list(body["blocks"]):
            t = blk["term"]
            if blk["cleanup"] or t["k"] != "call" or t["callee"].get("path") != "std::ops::FromResidual::from_residual" or t.get("target") is None:
                continue
            if t["dest"]["proj"] or not t["args"] or t["args"][0]["k"] not in ("copy", "move") or t["args"][0]["place"]["proj"]:
                continue
            dty = body["locals"][t["dest"]["local"]]["ty"]["s"]
            aty = body["locals"][t["args"][0]["place"]["local"]]["ty"]["s"]
            if not (dty.startswith("std::result::Result<") and aty.startswith("std::result::Result<")):
                continue
            e2, e1 = _last_generic(dty), _last_generic(aty)
            if not e1 or not e2 or e1 == e2:
                continue
            fid = "<%s as std::convert::From<%s>>::from" % (e2, e1)
            if fid not in ids:
                continue
            span = t["span"]
            a = t["args"][0]["place"]["local"]
            e_in = len(body["locals"]); body["locals"].append({"i": e_in, "ty": {"s": e1}, "mut": "true"})
            e_out = len(body["locals"]); body["locals"].append({"i": e_out, "ty": {"s": e2}, "mut": "true"})
            wrap = {"i": len(body["blocks"]), "cleanup": False,
                    "stmts": [{"k": "assign", "place": {"local": t["dest"]["local"], "proj": []},
                               "rv": {"k": "aggregate", "kind": {"k": "adt", "adt": "std::result::Result", "variant": "Err", "idx": 1, "fields": ["0"]},
                                      "ops": [{"k": "move", "place": {"local": e_out, "proj": []}}]}, "span": span}],
                    "term": {"k": "goto", "target": t["target"], "span": span}}
            body["blocks"].append(wrap)
            blk["stmts"].append({"k": "assign", "place": {"local": e_in, "proj": []},
                                 "rv": {"k": "use", "op": {"k": "move", "place": {"local": a, "proj": [
                                     {"k": "downcast", "variant": "Err", "idx": 1, "adt": "std::result::Result"}, {"k": "field", "i": 0, "name": "0", "ty": e1}]}}}, "span": span})
            blk["term"] = {"k": "call", "callee": {"path": fid, "full": fid, "local": True, "name": "from", "generic_args": [], "trait": "std::convert::From",
                                                    "resolved": fid},
                           "args": [{"k": "move", "place": {"local": e_in, "proj": []}}], "dest": {"local": e_out, "proj": []},
                           "target": wrap["i"], "unwind": None, "fn_span": span, "span": span}
            n += 1
            raw.setdefault("_exposed_from", set()).add(fid)
    return raw, n


def inline_new_functions(raw):
    with open(os.path.join(HERE, "known_functions.json")) as f:
        known = set(json.load(f)["functions"])
    bodies = {b["id"]: b for b in raw["bodies"]}
    new = [b for b in raw["bodies"] if b["kind"] in ("fn", "assoc_fn") and b["id"] not in known and not b.get("in_test")
           and not b.get("derived") and (b.get("impl_trait") is None or (b.get("impl_trait") == "std::convert::From" and b["id"] in raw.get("_exposed_from", ())))
           and b["id"] != "main"]
    if not new:
        return raw, []
    newids = {b["id"] for b in new}

    def calls_in(b):
        out = []
        for blk in b["blocks"]:
            if blk["cleanup"]:
                continue
            t = blk["term"]
            if t["k"] == "call" and t["callee"].get("path") in newids and t["callee"].get("kind") is None:
                out.append((blk["i"], t["callee"]["path"]))
        return out
    # non-recursive helpers only
    rec = set()
    for b in new:
        seen = set()
        work = [b["id"]]
        while work:
            x = work.pop()
            for (_, c) in calls_in(bodies[x]):
                if c == b["id"]:
                    rec.add(b["id"])
                if c not in seen:
                    seen.add(c)
                    work.append(c)
    inl = [b for b in new if b["id"] not in rec and len([x for x in b["blocks"] if not x["cleanup"]]) <= 400]
    inlids = {b["id"] for b in inl}
    done = []
    for _round in range(4):
        changed = False
        for b in raw["bodies"]:
            if b["kind"] == "promoted":
                continue
            for (bb, cid) in calls_in(b):
                if cid in inlids and cid != b["id"]:
                    inline_call(b, bb, bodies[cid])
                    changed = True
                    done.append((b["id"], cid))
        if not changed:
            break
    touched = {c for (c, _) in done}
    for b in raw["bodies"]:
        if b["id"] in touched:
            thread_known_variants(b)
    # a helper whose every production call was inlined and that creates no closure of its own is
    # dropped from the program (its code now lives in the callers); others stay, marked
    still_called = set()
    for b in raw["bodies"]:
        for (bb, cid) in calls_in(b):
            still_called.add(cid)
    parents = {b.get("parent") for b in raw["bodies"] if b["kind"] == "closure"} | {b.get("root") for b in raw["bodies"] if b["kind"] == "closure"}
    drop = set()
    for b in inl:
        b["inlined_helper"] = True
        if b["id"] not in still_called and any(c == b["id"] for (_, c) in done):
            hosts_of = sorted({h for (h, c) in done if c == b["id"]})
            if b["id"] in parents and len(hosts_of) != 1:
                # a closure literal shared by several hosts: the helper stays as the closures'
                # parent, but its code lives in the callers now: no rule looks at it
                b["dead_helper"] = True
                b["in_test"] = True
                continue
            drop.add(b["id"])
            # the helper's closures now belong to the function it was inlined into
            for cb in raw["bodies"]:
                if cb["kind"] == "closure":
                    if cb.get("parent") == b["id"]:
                        cb["parent"] = hosts_of[0]
                    if cb.get("root") == b["id"]:
                        cb["root"] = bodies[hosts_of[0]].get("root", hosts_of[0])
    if drop:
        raw["bodies"] = [b for b in raw["bodies"] if b["id"] not in drop and b.get("of") not in drop]
    return raw, done


# ------------------------------------------------------------------ jump threading
# After inlining `helper(..)?`, a helper's `return Err(e)` becomes `tmp = Err(e); ... ;
# Try::branch(tmp); switch` and the Continue arm looks reachable from the Err return.  The
# pass below removes such infeasible paths: where the variant of the value a switch tests is
# known along an incoming chain of straight-line blocks, the chain is cloned for that path and
# its switch replaced by a jump to the arm of the known variant.

_VARIANT_IDX = {"Ok": 0, "Err": 1, "None": 0, "Some": 1, "Continue": 0, "Break": 1}


def _succ(t):
    k = t["k"]
    if k == "goto":
        return [t["target"]]
    if k == "switch":
        return [b for _, b in t["targets"]] + [t["otherwise"]]
    if k in ("drop", "assert"):
        return [t["target"]]
    if k == "call":
        return [t["target"]] if t.get("target") is not None else []
    return []


def _retarget(t, old, new):
    for key in ("target", "otherwise"):
        if t.get(key) == old:
            t[key] = new
    if t["k"] == "switch":
        t["targets"] = [[v, (new if b == old else b)] for v, b in t["targets"]]


_KNOWN_ADTS = None


def _known_adts():
    global _KNOWN_ADTS
    if _KNOWN_ADTS is None:
        with open(os.path.join(HERE, "known_functions.json")) as f:
            _KNOWN_ADTS = set(json.load(f).get("adts", []))
        _KNOWN_ADTS |= {"std::result::Result", "std::option::Option", "std::ops::ControlFlow"}
    return _KNOWN_ADTS


def _payload_path(proj):
    """[(downcast V, field i)]* -> ((V, i), ..); None for any other projection"""
    out = []
    i = 0
    while i < len(proj):
        if i + 1 < len(proj) and proj[i]["k"] == "downcast" and proj[i + 1]["k"] == "field" and isinstance(proj[i + 1].get("i"), int):
            out.append((proj[i]["variant"], proj[i + 1]["i"]))
            i += 2
        else:
            return None
    return tuple(out)


def thread_known_variants(body, only_from=None, budget=60, bools=False):
    """bools=True also threads unnamed bool temporaries whose constant value is known along an
    incoming chain (the `matches!(..)` result of an inlined closure)."""
    blocks = body["blocks"]

    def preds_of(i):
        return [b["i"] for b in blocks if not b["cleanup"] and i in _succ(b["term"])]

    nested = [()]

    def discr_of_switch(b):
        """local tested if block b switches on discriminant(local) computed in b; nested[0] is
        then the payload path below it (`discriminant((x as Err).0)` -> (("Err", 0),))."""
        nested[0] = ()
        t = b["term"]
        if t["k"] != "switch" or t["discr"]["k"] not in ("copy", "move") or t["discr"]["place"]["proj"]:
            return None
        d = t["discr"]["place"]["local"]
        for s in reversed(b["stmts"]):
            if s["k"] == "assign" and s["place"]["local"] == d and not s["place"]["proj"]:
                if s["rv"]["k"] == "discriminant" and _payload_path(s["rv"]["place"]["proj"]) is not None:
                    nested[0] = _payload_path(s["rv"]["place"]["proj"])
                    q = s["rv"]["place"]["local"]
                    # `q = move x` earlier in the same block: the value tested is x
                    k0 = b["stmts"].index(s)
                    for s2 in reversed(b["stmts"][:k0]):
                        if s2["k"] == "assign" and s2["place"]["local"] == q and not s2["place"]["proj"]:
                            if s2["rv"]["k"] == "use" and s2["rv"]["op"]["k"] in ("copy", "move") and not s2["rv"]["op"]["place"]["proj"]:
                                q = s2["rv"]["op"]["place"]["local"]
                            else:
                                return None
                    return q
                if t.get("discr_ty") == "bool" and s["rv"]["k"] == "use" and s["rv"]["op"]["k"] in ("copy", "move") and not s["rv"]["op"]["place"]["proj"]:
                    d = s["rv"]["op"]["place"]["local"]
                    continue
                if t.get("discr_ty") == "bool" and bools and s["rv"]["k"] == "use" and s["rv"]["op"]["k"] in ("copy", "move") \
                        and _payload_path(s["rv"]["op"]["place"]["proj"]):
                    # `if helper(..)? {` : the bool tested is the payload of a Result / ControlFlow
                    nested[0] = _payload_path(s["rv"]["op"]["place"]["proj"])
                    return s["rv"]["op"]["place"]["local"]
                return None
        named = {dbg["value"].get("local") for dbg in body.get("debug", []) if "local" in dbg["value"] and not dbg["value"]["proj"]}
        if t.get("discr_ty") == "bool" and bools and d not in named and d > body.get("arg_count", 0):
            return d
        return None

    def arm(sw, idx):
        for v, b in sw["term"]["targets"]:
            if int(v) == idx:
                return b
        return sw["term"]["otherwise"]

    made = 0
    work = [b["i"] for b in blocks if not b["cleanup"] and b["term"]["k"] == "switch"]
    for si in work:
        S = blocks[si]
        q0 = discr_of_switch(S)
        if q0 is None:
            continue
        # walk backwards over straight-line chains; state = (block index, tracked local, chain of
        # block indices from that block's successor to S, try-mapping flag)
        path0 = nested[0]
        stack = [(p, q0, path0, [si]) for p in preds_of(si)]
        seen = set()
        while stack and made < budget:
            cur, q, path, chain = stack.pop()
            if (cur, q, path, tuple(chain)) in seen or len(chain) > 24:
                continue
            seen.add((cur, q, path, tuple(chain)))
            B = blocks[cur]
            t = B["term"]
            # the chain may only consist of blocks that do nothing but move values around
            known_from_call = None
            if t["k"] == "call":
                c = t["callee"].get("path")
                if c == "std::ops::Try::branch" and t["dest"]["local"] == q and not t["dest"]["proj"] and t["args"][0]["k"] in ("copy", "move") and not t["args"][0]["place"]["proj"]:
                    q = t["args"][0]["place"]["local"]
                    if path:
                        # the payload of Continue(v) is the payload of Ok(v) / Some(v)
                        aty = body["locals"][q]["ty"]["s"]
                        into = "Ok" if aty.startswith("std::result::Result") else ("Some" if aty.startswith("std::option::Option") else None)
                        if path[0][0] != "Continue" or into is None:
                            continue
                        path = ((into, path[0][1]),) + tuple(path[1:])
                elif c == "std::ops::FromResidual::from_residual" and t["dest"]["local"] == q and not t["dest"]["proj"]:
                    # `return Err(e.into())` of the `?` operator: the value is the failure variant
                    qty = body["locals"][q]["ty"]["s"]
                    known_from_call = "Err" if qty.startswith("std::result::Result") else ("None" if qty.startswith("std::option::Option") else None)
                    if known_from_call is None:
                        continue
                else:
                    continue
            elif t["k"] not in ("goto", "drop"):
                continue
            known = known_from_call
            ok = True
            descended = len(path) < len(path0)
            if known_from_call is not None and path:
                continue
            for s in reversed(B["stmts"] if known is None else []):
                if s["k"] != "assign":
                    continue
                if s["place"]["local"] == q and not s["place"]["proj"]:
                    rv = s["rv"]
                    if rv["k"] == "use" and rv["op"]["k"] in ("copy", "move") and not rv["op"]["place"]["proj"]:
                        q = rv["op"]["place"]["local"]
                        continue
                    if rv["k"] == "aggregate" and rv["kind"]["k"] == "adt" and path:
                        # the value tested lies inside this aggregate: follow the payload
                        v0, f0 = path[0]
                        if rv["kind"]["variant"] == v0 and f0 < len(rv["ops"]) and len(path) == 1 and S["term"].get("discr_ty") == "bool" \
                                and rv["ops"][f0]["k"] == "const" and rv["ops"][f0].get("bits") in ("0", "1"):
                            known = int(rv["ops"][f0]["bits"])
                            break
                        if rv["kind"]["variant"] == v0 and f0 < len(rv["ops"]) and rv["ops"][f0]["k"] in ("copy", "move") and not rv["ops"][f0]["place"]["proj"]:
                            q = rv["ops"][f0]["place"]["local"]
                            path = path[1:]
                            descended = True
                            continue
                        ok = False
                        break
                    if rv["k"] == "aggregate" and rv["kind"]["k"] == "adt" and isinstance(rv["kind"].get("idx"), int) \
                            and (descended or rv["kind"].get("adt") not in _known_adts()):
                        # (also a value of an enum that does not exist on the pinned tree: a "plan" or
                        #  "outcome" a refactoring computes in one place and matches on in another)
                        known = int(rv["kind"]["idx"])
                    elif rv["k"] == "aggregate" and rv["kind"]["k"] == "adt" and rv["kind"]["variant"] in _VARIANT_IDX:
                        known = rv["kind"]["variant"]
                    elif S["term"].get("discr_ty") == "bool" and rv["k"] == "use" and rv["op"]["k"] == "const" and rv["op"].get("bits") in ("0", "1"):
                        known = int(rv["op"]["bits"])
                    else:
                        ok = False
                    break
            if not ok:
                continue
            if known is not None:
                if only_from is not None and cur < only_from and all(x < only_from for x in chain):
                    continue
                # clone the chain for this path
                idx = known if isinstance(known, int) else _VARIANT_IDX[known]
                prev_new = None
                first_new = None
                clones = []
                for ci in chain:
                    nb = copy.deepcopy(blocks[ci])
                    nb["i"] = len(blocks) + len(clones)
                    clones.append(nb)
                for k2, nb in enumerate(clones):
                    if k2 + 1 < len(clones):
                        _retarget(nb["term"], chain[k2 + 1], clones[k2 + 1]["i"])
                    else:
                        nb["term"] = {"k": "goto", "target": arm(blocks[chain[-1]], idx), "span": nb["term"]["span"]}
                blocks.extend(clones)
                _retarget(B["term"], chain[0], clones[0]["i"])
                made += 1
                continue
            for p in preds_of(cur):
                stack.append((p, q, path, [cur] + chain))
    return made


# ------------------------------------------------------------------ iterator / Result combinators
# `xs.iter().for_each(|x| f(x))`, `.any(..)`, `.all(..)`, `.map(..).collect()`, `v.extend(it)`,
# `r.map_err(|e| g(e))`, `o.ok_or_else(|| e)` are rewritten into the explicit loop / match they
# abbreviate, with the closure body inlined, so that a loop written with a combinator and the
# same loop written with `for` present the same shape to the rules.

def _mk_callee(path, name, trait=None):
    c = {"path": path, "full": path, "local": False, "name": name, "generic_args": []}
    if trait:
        c["trait"] = trait
    return c


def _closure_id_of(body, op):
    """Body id of the callable handed to a combinator: a closure literal, or a plain local
    function named as a value (`.map_err(to_work_error)`), which is inlined the same way."""
    if op["k"] == "const":
        fn = op.get("fn")
        if fn and fn.get("local") and not fn.get("generic_args"):
            return fn["path"]
        return None
    if op["k"] not in ("copy", "move") or op["place"]["proj"]:
        return None
    ty = body["locals"][op["place"]["local"]]["ty"]
    if ty.get("closure"):
        return ty.get("closure")
    # `.map(&f)` with `let f = |x| ..`: a reference to a closure variable (possibly captured)
    if ty["s"].startswith("&") and _CLOSURE_BY_TYPE.get(ty["s"].lstrip("&").replace("mut ", "").strip()):
        return _CLOSURE_BY_TYPE[ty["s"].lstrip("&").replace("mut ", "").strip()]
    if ty["s"].startswith("&") or ty["s"].startswith("impl Fn") or not ty["s"].startswith(("std::", "core::", "alloc::", "(", "[")):
        # (also a by-value callable parameter of an inlined generic helper: `f: impl FnOnce(..)`
        #  or `f: F`, assigned once from the closure the caller wrote)
        cur = op["place"]["local"]
        for _ in range(6):
            if body["locals"][cur]["ty"].get("closure"):
                return body["locals"][cur]["ty"]["closure"]
            d = _single_assign(body, cur)
            if d is None or d[0] != "assign":
                return None
            rv = d[1]
            if rv["k"] == "aggregate" and rv["kind"].get("k") == "closure":
                return rv["kind"].get("body")
            if rv["k"] == "ref" and not [e for e in rv["place"]["proj"] if e["k"] != "deref"]:
                t2 = body["locals"][rv["place"]["local"]]["ty"]
                if t2.get("closure"):
                    return t2["closure"]
                cur = rv["place"]["local"]
                continue
            if rv["k"] == "use" and rv["op"]["k"] in ("copy", "move") and not rv["op"]["place"]["proj"]:
                cur = rv["op"]["place"]["local"]
                continue
            return None
    return None


def _new_local(body, ty="?"):
    n = len(body["locals"])
    body["locals"].append({"i": n, "ty": dict(ty) if isinstance(ty, dict) else {"s": ty}, "mut": "true"})
    return n


def _pl(l, proj=None):
    return {"local": l, "proj": proj or []}


def _mv(l, proj=None):
    return {"k": "move", "place": _pl(l, proj)}


def _cp(l, proj=None):
    return {"k": "copy", "place": _pl(l, proj)}


def _assign(place, rv, span):
    return {"k": "assign", "place": place, "rv": rv, "span": span}


def _new_block(body, stmts, term):
    n = len(body["blocks"])
    body["blocks"].append({"i": n, "cleanup": False, "stmts": stmts, "term": term})
    return n


def _unreachable(body, span):
    return _new_block(body, [], {"k": "unreachable", "span": span})


def _inline_closure(body, cb, env_op, arg_ops, dest_local, cont, span):
    """Append the closure's blocks; returns the entry block.  Result goes to dest_local."""
    nl = len(body["locals"])
    lm = {}
    for l in cb["locals"]:
        lm[l["i"]] = nl + l["i"]
        c = dict(l)
        c["i"] = nl + l["i"]
        body["locals"].append(c)
    live = [b for b in cb["blocks"] if not b["cleanup"]]
    nb = len(body["blocks"])
    bm = {b["i"]: nb + 1 + k for k, b in enumerate(live)}
    if cb["kind"] == "closure":
        stmts = [_assign(_pl(lm[1]), {"k": "use", "op": copy.deepcopy(env_op)}, span)]
        first = 2
    else:
        stmts = []          # a plain function: no environment parameter
        first = 1
    for k, a in enumerate(arg_ops):
        if k + first <= cb["arg_count"]:
            stmts.append(_assign(_pl(lm[k + first]), {"k": "use", "op": copy.deepcopy(a)}, span))
    body["blocks"].append({"i": nb, "cleanup": False, "stmts": stmts, "term": {"k": "goto", "target": bm[0], "span": span}})
    for b in live:
        c = copy.deepcopy(b)
        c["i"] = bm[b["i"]]
        _rewrite_locals(c, lm)
        t = c["term"]
        if t["k"] == "return":
            c["stmts"].append(_assign(_pl(dest_local), {"k": "use", "op": _mv(lm[0])}, t["span"]))
            c["term"] = {"k": "goto", "target": cont, "span": t["span"]}
        else:
            for key in ("target", "otherwise", "resume"):
                if key in t and isinstance(t[key], int):
                    t[key] = bm.get(t[key], t[key])
            if "unwind" in t:
                t["unwind"] = None
            if t["k"] == "switch":
                t["targets"] = [[v, bm[x]] for v, x in t["targets"]]
        body["blocks"].append(c)
    for dv in cb.get("debug", []):
        v = copy.deepcopy(dv)
        if "local" in v["value"]:
            if cb["kind"] != "closure" and 1 <= v["value"]["local"] <= cb.get("arg_count", 0) and not v["value"]["proj"]:
                continue
            _rewrite_locals(v, lm)
            v["arg"] = None
            body["debug"].append(v)
    return nb


def _def_call_of(body, local):
    """The unique call whose destination is `local` (whole), as (block index, term)."""
    found = None
    for b in body["blocks"]:
        if b["cleanup"]:
            continue
        t = b["term"]
        if t["k"] == "call" and t["dest"]["local"] == local and not t["dest"]["proj"]:
            if found is not None:
                return None
            found = (b["i"], t)
        for s in b["stmts"]:
            if s["k"] == "assign" and s["place"]["local"] == local and not s["place"]["proj"]:
                return None
    return found


def _single_assign(body, local):
    """The only definition of `local` (whole): ("assign", rv) | ("call", block index, term) | None."""
    found = None
    for b in body["blocks"]:
        if b["cleanup"]:
            continue
        t = b["term"]
        if t["k"] == "call" and t["dest"]["local"] == local and not t["dest"]["proj"]:
            if found is not None:
                return None
            found = ("call", b["i"], t)
        for s in b["stmts"]:
            if s["k"] == "assign" and s["place"]["local"] == local and not s["place"]["proj"]:
                if found is not None:
                    return None
                found = ("assign", s["rv"])
    return found


def fold_constant_variant_switches(body):
    """A switch on the discriminant of a local that is assigned exactly once, by an aggregate of
    one variant, and never lent out mutably, has one outcome: it is replaced by a jump to that
    arm (the `match origin` of a helper inlined into a caller that passes `Origin::Goal(..)`;
    straight-line threading does not reach it when calls lie in between)."""
    blocks = body["blocks"]
    lent = set()
    for b in blocks:
        for s in b["stmts"]:
            if s["k"] == "assign" and s["rv"]["k"] in ("ref", "raw_ptr") and (s["rv"].get("mut") in (True, "true") or s["rv"]["k"] == "raw_ptr"):
                lent.add(s["rv"]["place"]["local"])
    made = 0
    for b in blocks:
        if b["cleanup"]:
            continue
        t = b["term"]
        if t["k"] != "switch" or t["discr"]["k"] not in ("copy", "move") or t["discr"]["place"]["proj"]:
            continue
        d = t["discr"]["place"]["local"]
        q = None
        for s in reversed(b["stmts"]):
            if s["k"] == "assign" and s["place"]["local"] == d and not s["place"]["proj"]:
                if s["rv"]["k"] == "discriminant" and not s["rv"]["place"]["proj"]:
                    q = s["rv"]["place"]["local"]
                break
        if q is None:
            continue
        idx = None
        for _ in range(6):
            if q in lent or q <= body.get("arg_count", 0):
                break
            sd = _single_assign(body, q)
            if sd is None or sd[0] != "assign":
                break
            rv = sd[1]
            if rv["k"] == "use" and rv["op"]["k"] in ("copy", "move") and not rv["op"]["place"]["proj"]:
                q = rv["op"]["place"]["local"]
                continue
            if rv["k"] == "aggregate" and rv["kind"].get("k") == "adt" and isinstance(rv["kind"].get("idx"), int) \
                    and rv["kind"].get("adt") not in _known_adts():
                idx = rv["kind"]["idx"]
            break
        if idx is None:
            continue
        # no store into a field of q either
        if any(s["k"] == "assign" and s["place"]["local"] == q and s["place"]["proj"] for b2 in blocks for s in b2["stmts"]):
            continue
        tgt = t["otherwise"]
        for v, dst in t["targets"]:
            if int(v) == idx:
                tgt = dst
        b["term"] = {"k": "goto", "target": tgt, "span": t.get("span")}
        made += 1
    return made


def _iter_source_local(body, op):
    """`&mut it` (through reborrows and moves of the reference) -> it."""
    for _ in range(6):
        if op["k"] not in ("copy", "move"):
            return None
        pl = op["place"]
        if pl["proj"] and not all(e["k"] == "deref" for e in pl["proj"]):
            return None
        d = _single_assign(body, pl["local"])
        if d is None or d[0] != "assign":
            return None
        rv = d[1]
        if rv["k"] == "ref":
            p2 = rv["place"]
            if not p2["proj"]:
                return p2["local"]
            if all(e["k"] == "deref" for e in p2["proj"]):
                op = {"k": "copy", "place": {"local": p2["local"], "proj": []}}
                continue
            return None
        if rv["k"] == "use":
            op = rv["op"]
            continue
        return None
    return None


def _resolve_map_call(body, local):
    """The `Iterator::map(inner, closure)` call that produced the iterator held in `local`,
    through moves and `into_iter`."""
    for _ in range(8):
        d = _single_assign(body, local)
        if d is None:
            return None
        if d[0] == "assign":
            rv = d[1]
            if rv["k"] == "use" and rv["op"]["k"] in ("copy", "move") and not rv["op"]["place"]["proj"]:
                local = rv["op"]["place"]["local"]
                continue
            return None
        _, bi, t = d
        p = t["callee"].get("path")
        if p in ("std::iter::Iterator::map", "std::iter::Iterator::filter") and len(t["args"]) == 2:
            return bi, t
        if p in ("std::iter::IntoIterator::into_iter",) and t["args"] and t["args"][0]["k"] in ("copy", "move") and not t["args"][0]["place"]["proj"]:
            local = t["args"][0]["place"]["local"]
            continue
        return None
    return None


def _loop_skeleton(body, iter_op, span):
    """it = iter_op; header: n = next(&mut it); switch disc(n) [None -> exit?, Some -> body?]
    Returns dict(header, elem operand, set_exits(exit_bb, body_bb))."""
    it = _new_local(body, "iterator")
    r = _new_local(body, "&mut iterator")
    n = _new_local(body, "std::option::Option<item>")
    d = _new_local(body, "isize")
    pre = _new_block(body, [_assign(_pl(it), {"k": "use", "op": copy.deepcopy(iter_op)}, span)], {"k": "goto", "target": -1, "span": span})
    sw = _new_block(body, [_assign(_pl(d), {"k": "discriminant", "place": _pl(n), "adt": "std::option::Option"}, span)],
                    {"k": "switch", "discr": _mv(d), "discr_ty": "isize", "targets": [["0", -1], ["1", -1]], "otherwise": -1, "span": span})
    hd = _new_block(body, [_assign(_pl(r), {"k": "ref", "mut": True, "place": _pl(it)}, span)],
                    {"k": "call", "callee": _mk_callee("std::iter::Iterator::next", "next", "std::iter::Iterator"), "args": [_mv(r)],
                     "dest": _pl(n), "target": sw, "unwind": None, "fn_span": span, "span": span})
    body["blocks"][pre]["term"]["target"] = hd
    elem = _mv(n, [{"k": "downcast", "variant": "Some", "idx": 1, "adt": "std::option::Option"}, {"k": "field", "i": 0, "name": "0", "ty": "item"}])

    def wire(none_bb, some_bb):
        body["blocks"][sw]["term"]["targets"] = [["0", none_bb], ["1", some_bb]]
        body["blocks"][sw]["term"]["otherwise"] = _unreachable(body, span)
    return {"pre": pre, "header": hd, "elem": elem, "wire": wire}


# path -> (adt, which arm the closure handles, whether its result is re-wrapped in that variant)
_MATCH_COMBINATORS = {
    "std::result::Result::<T, E>::map": ("std::result::Result", "good", True),
    "std::option::Option::<T>::map": ("std::option::Option", "good", True),
    "std::result::Result::<T, E>::and_then": ("std::result::Result", "good", False),
    "std::option::Option::<T>::and_then": ("std::option::Option", "good", False),
    "std::result::Result::<T, E>::unwrap_or_else": ("std::result::Result", "bad", False),
    "std::option::Option::<T>::unwrap_or_else": ("std::option::Option", "bad", False),
}


_CLOSURE_BY_TYPE = {}


def desugar_combinators(raw):
    bodies = {b["id"]: b for b in raw["bodies"]}
    _CLOSURE_BY_TYPE.clear()
    for b in raw["bodies"]:
        for l in b["locals"]:
            if l["ty"].get("closure"):
                _CLOSURE_BY_TYPE[l["ty"]["s"]] = l["ty"]["closure"]
    used_closures = set()
    called_closures = set()
    hosts = set()
    n_done = 0
    for body in raw["bodies"]:
        if body["kind"] == "promoted" or body.get("in_test") or body.get("derived"):
            continue
        i = 0
        while i < len(body["blocks"]):
            blk = body["blocks"][i]
            i += 1
            if blk["cleanup"] or blk["term"]["k"] != "call" or blk["term"].get("target") is None:
                continue
            t = blk["term"]
            path = t["callee"].get("path")
            span = t["span"]
            cont = t["target"]
            dest = t["dest"]
            args = t["args"]
            if path in ("std::iter::Iterator::for_each", "std::iter::Iterator::any", "std::iter::Iterator::all") and len(args) == 2:
                cid = _closure_id_of(body, args[1])
                cb = bodies.get(cid)
                if cb is None:
                    continue
                sk = _loop_skeleton(body, args[0], span)
                res = _new_local(body, cb["locals"][0]["ty"])
                if path.endswith("for_each"):
                    exit_bb = _new_block(body, [_assign(copy.deepcopy(dest), {"k": "aggregate", "kind": {"k": "tuple"}, "ops": []}, span)], {"k": "goto", "target": cont, "span": span})
                    entry = _inline_closure(body, cb, args[1], [sk["elem"]], res, sk["header"], span)
                    sk["wire"](exit_bb, entry)
                else:
                    is_any = path.endswith("any")
                    cst = lambda v: {"k": "const", "ty": {"s": "bool"}, "text": "true" if v else "false", "bits": "1" if v else "0", "size": 1}
                    exit_bb = _new_block(body, [_assign(copy.deepcopy(dest), {"k": "use", "op": cst(not is_any)}, span)], {"k": "goto", "target": cont, "span": span})
                    hit_bb = _new_block(body, [_assign(copy.deepcopy(dest), {"k": "use", "op": cst(is_any)}, span)], {"k": "goto", "target": cont, "span": span})
                    test = _new_block(body, [], {"k": "switch", "discr": _mv(res), "discr_ty": "bool",
                                                 "targets": [["0", sk["header"] if is_any else hit_bb]], "otherwise": hit_bb if is_any else sk["header"], "span": span})
                    entry = _inline_closure(body, cb, args[1], [sk["elem"]], res, test, span)
                    sk["wire"](exit_bb, entry)
                blk["term"] = {"k": "goto", "target": sk["pre"], "span": span}
                used_closures.add(cid)
                hosts.add(body["id"])
                n_done += 1
            elif path == "std::iter::Iterator::collect" and len(args) == 1 and args[0]["k"] in ("copy", "move") and not args[0]["place"]["proj"]:
                dc = _def_call_of(body, args[0]["place"]["local"])
                if dc is not None and dc[1]["callee"].get("path") == "std::iter::Iterator::filter" and len(dc[1]["args"]) == 2 and not dest["proj"] \
                        and body["locals"][dest["local"]]["ty"]["s"].startswith("std::vec::Vec<"):
                    # `it.filter(|x| p(x)).collect::<Vec<_>>()`  ->  for x in it { if p(&x) { v.push(x) } }
                    ft = dc[1]
                    cid = _closure_id_of(body, ft["args"][1])
                    cb = bodies.get(cid)
                    if cb is None:
                        continue
                    acc = dest["local"]
                    res = _new_local(body, cb["locals"][0]["ty"])
                    el = _new_local(body, "item")
                    elref = _new_local(body, "&item")
                    accref = _new_local(body, "&mut Vec")
                    push_dest = _new_local(body, "()")
                    sk = _loop_skeleton(body, ft["args"][0], span)
                    init = _new_block(body, [], {"k": "call", "callee": _mk_callee("std::vec::Vec::<T>::new", "new"), "args": [], "dest": _pl(acc),
                                                 "target": sk["pre"], "unwind": None, "fn_span": span, "span": span})
                    exit_bb = _new_block(body, [], {"k": "goto", "target": cont, "span": span})
                    push_bb = _new_block(body, [_assign(_pl(accref), {"k": "ref", "mut": True, "place": _pl(acc)}, span)],
                                         {"k": "call", "callee": _mk_callee("std::vec::Vec::<T, A>::push", "push"), "args": [_mv(accref), _mv(el)], "dest": _pl(push_dest),
                                          "target": sk["header"], "unwind": None, "fn_span": span, "span": span})
                    test = _new_block(body, [], {"k": "switch", "discr": _mv(res), "discr_ty": "bool", "targets": [["0", sk["header"]]], "otherwise": push_bb, "span": span})
                    centry = _inline_closure(body, cb, ft["args"][1], [_cp(elref)], res, test, span)
                    entry = _new_block(body, [_assign(_pl(el), {"k": "use", "op": sk["elem"]}, span), _assign(_pl(elref), {"k": "ref", "mut": False, "place": _pl(el)}, span)],
                                       {"k": "goto", "target": centry, "span": span})
                    sk["wire"](exit_bb, entry)
                    blk["term"] = {"k": "goto", "target": init, "span": span}
                    fb = body["blocks"][dc[0]]
                    fb["stmts"].append(_assign(copy.deepcopy(ft["dest"]), {"k": "use", "op": copy.deepcopy(ft["args"][0])}, span))
                    fb["term"] = {"k": "goto", "target": ft["target"], "span": span}
                    used_closures.add(cid)
                    hosts.add(body["id"])
                    n_done += 1
                    continue
                out_ty0 = body["locals"][dest["local"]]["ty"]["s"] if not dest["proj"] else ""
                if (dc is None or dc[1]["callee"].get("path") != "std::iter::Iterator::map") and out_ty0.startswith("std::result::Result<std::vec::Vec<"):
                    # `results.into_iter().collect::<Result<Vec<_>, E>>()`:
                    #   for r in results { match r { Ok(v) => acc.push(v), Err(e) => break Err(e) } } Ok(acc)
                    acc = _new_local(body, "std::vec::Vec<collected>")
                    el = _new_local(body, "std::result::Result<item, error>")
                    accref = _new_local(body, "&mut Vec")
                    push_dest = _new_local(body, "()")
                    d2 = _new_local(body, "isize")
                    sk = _loop_skeleton(body, args[0], span)
                    init = _new_block(body, [], {"k": "call", "callee": _mk_callee("std::vec::Vec::<T>::new", "new"), "args": [], "dest": _pl(acc),
                                                 "target": sk["pre"], "unwind": None, "fn_span": span, "span": span})
                    exit_bb = _new_block(body, [_assign(copy.deepcopy(dest), {"k": "aggregate", "kind": {"k": "adt", "adt": "std::result::Result", "variant": "Ok", "idx": 0, "fields": ["0"]}, "ops": [_mv(acc)]}, span)],
                                         {"k": "goto", "target": cont, "span": span})
                    okv = _mv(el, [{"k": "downcast", "variant": "Ok", "idx": 0, "adt": "std::result::Result"}, {"k": "field", "i": 0, "name": "0", "ty": "item"}])
                    errv = _mv(el, [{"k": "downcast", "variant": "Err", "idx": 1, "adt": "std::result::Result"}, {"k": "field", "i": 0, "name": "0", "ty": "error"}])
                    push_bb = _new_block(body, [_assign(_pl(accref), {"k": "ref", "mut": True, "place": _pl(acc)}, span)],
                                         {"k": "call", "callee": _mk_callee("std::vec::Vec::<T, A>::push", "push"), "args": [_mv(accref), okv], "dest": _pl(push_dest),
                                          "target": sk["header"], "unwind": None, "fn_span": span, "span": span})
                    err_bb = _new_block(body, [_assign(copy.deepcopy(dest), {"k": "aggregate", "kind": {"k": "adt", "adt": "std::result::Result", "variant": "Err", "idx": 1, "fields": ["0"]}, "ops": [errv]}, span)],
                                        {"k": "goto", "target": cont, "span": span})
                    test = _new_block(body, [_assign(_pl(el), {"k": "use", "op": sk["elem"]}, span), _assign(_pl(d2), {"k": "discriminant", "place": _pl(el), "adt": "std::result::Result"}, span)],
                                      {"k": "switch", "discr": _mv(d2), "discr_ty": "isize", "targets": [["0", push_bb], ["1", err_bb]], "otherwise": _unreachable(body, span), "span": span})
                    sk["wire"](exit_bb, test)
                    blk["term"] = {"k": "goto", "target": init, "span": span}
                    hosts.add(body["id"])
                    n_done += 1
                    continue
                if dc is None or dc[1]["callee"].get("path") != "std::iter::Iterator::map" or len(dc[1]["args"]) != 2:
                    continue
                mt = dc[1]
                cid = _closure_id_of(body, mt["args"][1])
                cb = bodies.get(cid)
                if cb is None:
                    continue
                out_ty = body["locals"][dest["local"]]["ty"]["s"] if not dest["proj"] else ""
                into_result = out_ty.startswith("std::result::Result<")
                # collecting straight into a variable: that variable is the accumulator
                acc = dest["local"] if (not into_result and not dest["proj"]) else _new_local(body, "std::vec::Vec<collected>")
                res = _new_local(body, cb["locals"][0]["ty"])
                sk = _loop_skeleton(body, mt["args"][0], span)
                init = _new_block(body, [], {"k": "call", "callee": _mk_callee("std::vec::Vec::<T>::new", "new"), "args": [], "dest": _pl(acc),
                                             "target": sk["pre"], "unwind": None, "fn_span": span, "span": span})
                accref = _new_local(body, "&mut Vec")
                push_dest = _new_local(body, "()")
                if into_result:
                    exit_bb = _new_block(body, [_assign(copy.deepcopy(dest), {"k": "aggregate", "kind": {"k": "adt", "adt": "std::result::Result", "variant": "Ok", "idx": 0, "fields": ["0"]}, "ops": [_mv(acc)]}, span)],
                                         {"k": "goto", "target": cont, "span": span})
                    okv = _mv(res, [{"k": "downcast", "variant": "Ok", "idx": 0, "adt": "std::result::Result"}, {"k": "field", "i": 0, "name": "0", "ty": "item"}])
                    errv = _mv(res, [{"k": "downcast", "variant": "Err", "idx": 1, "adt": "std::result::Result"}, {"k": "field", "i": 0, "name": "0", "ty": "error"}])
                    push_bb = _new_block(body, [_assign(_pl(accref), {"k": "ref", "mut": True, "place": _pl(acc)}, span)],
                                         {"k": "call", "callee": _mk_callee("std::vec::Vec::<T, A>::push", "push"), "args": [_mv(accref), okv], "dest": _pl(push_dest),
                                          "target": sk["header"], "unwind": None, "fn_span": span, "span": span})
                    err_bb = _new_block(body, [_assign(copy.deepcopy(dest), {"k": "aggregate", "kind": {"k": "adt", "adt": "std::result::Result", "variant": "Err", "idx": 1, "fields": ["0"]}, "ops": [errv]}, span)],
                                        {"k": "goto", "target": cont, "span": span})
                    d2 = _new_local(body, "isize")
                    test = _new_block(body, [_assign(_pl(d2), {"k": "discriminant", "place": _pl(res), "adt": "std::result::Result"}, span)],
                                      {"k": "switch", "discr": _mv(d2), "discr_ty": "isize", "targets": [["0", push_bb], ["1", err_bb]], "otherwise": _unreachable(body, span), "span": span})
                    entry = _inline_closure(body, cb, mt["args"][1], [sk["elem"]], res, test, span)
                else:
                    exit_bb = _new_block(body, [] if acc == dest["local"] and not dest["proj"] else [_assign(copy.deepcopy(dest), {"k": "use", "op": _mv(acc)}, span)], {"k": "goto", "target": cont, "span": span})
                    push_bb = _new_block(body, [_assign(_pl(accref), {"k": "ref", "mut": True, "place": _pl(acc)}, span)],
                                         {"k": "call", "callee": _mk_callee("std::vec::Vec::<T, A>::push", "push"), "args": [_mv(accref), _mv(res)], "dest": _pl(push_dest),
                                          "target": sk["header"], "unwind": None, "fn_span": span, "span": span})
                    entry = _inline_closure(body, cb, mt["args"][1], [sk["elem"]], res, push_bb, span)
                sk["wire"](exit_bb, entry)
                blk["term"] = {"k": "goto", "target": init, "span": span}
                # the `map` call itself becomes a no-op move of the inner iterator
                mb = body["blocks"][dc[0]]
                mb["stmts"].append(_assign(copy.deepcopy(mt["dest"]), {"k": "use", "op": copy.deepcopy(mt["args"][0])}, span))
                mb["term"] = {"k": "goto", "target": mt["target"], "span": span}
                used_closures.add(cid)
                hosts.add(body["id"])
                n_done += 1
            elif path in ("std::ops::FnMut::call_mut", "std::ops::Fn::call", "std::ops::FnOnce::call_once") and len(args) == 2 \
                    and ((t["callee"].get("self_ty") or {}).get("closure") or _closure_id_of(body, args[0])) \
                    and args[1]["k"] in ("copy", "move") and not args[1]["place"]["proj"]:
                # a local closure called directly (`let mut section = |xs| {..}; section(a); section(b)`):
                # each call is the closure's body with the tuple of arguments spread.  (Also a callable
                # parameter of an inlined helper, once the closure handed in is known.)
                cid = (t["callee"].get("self_ty") or {}).get("closure") or _closure_id_of(body, args[0])
                cb = bodies.get(cid)
                if cb is None or dest["proj"]:
                    continue
                tl = args[1]["place"]["local"]
                tty = body["locals"][tl]["ty"]["s"]
                n_args = max(cb["arg_count"] - 1, 0)
                arg_ops = [_mv(tl, [{"k": "field", "i": j, "name": str(j), "ty": "arg"}]) for j in range(n_args)]
                res = dest["local"]
                after = _new_block(body, [], {"k": "goto", "target": cont, "span": span})
                entry = _inline_closure(body, cb, args[0], arg_ops, res, after, span)
                blk["term"] = {"k": "goto", "target": entry, "span": span}
                called_closures.add(cid)
                hosts.add(body["id"])
                n_done += 1
            elif path in ("std::iter::Iterator::try_for_each", "std::iter::Iterator::try_fold") and len(args) in (2, 3) and not dest["proj"]:
                # for x in it { match f([acc,] x) { Ok(v) => [acc = v], Err(e) => break Err(e) } }  Ok([acc])
                is_fold = path.endswith("try_fold")
                cid = _closure_id_of(body, args[-1])
                cb = bodies.get(cid)
                rty = body["locals"][dest["local"]]["ty"]["s"]
                if cb is None or not rty.startswith(("std::result::Result<", "std::option::Option<")) or (is_fold and len(args) != 3) or (not is_fold and len(args) != 2):
                    continue
                is_res = rty.startswith("std::result::Result<")
                adt = "std::result::Result" if is_res else "std::option::Option"
                goodv, goodi, badi = ("Ok", 0, 1) if is_res else ("Some", 1, 0)
                res = _new_local(body, cb["locals"][0]["ty"])
                d2 = _new_local(body, "isize")
                sk = _loop_skeleton(body, args[0], span)
                payload = _mv(res, [{"k": "downcast", "variant": goodv, "idx": goodi, "adt": adt}, {"k": "field", "i": 0, "name": "0", "ty": "item"}])
                if is_fold:
                    acc = _new_local(body, "accumulator")
                    init = _new_block(body, [_assign(_pl(acc), {"k": "use", "op": copy.deepcopy(args[1])}, span)], {"k": "goto", "target": sk["pre"], "span": span})
                    exit_bb = _new_block(body, [_assign(copy.deepcopy(dest), {"k": "aggregate", "kind": {"k": "adt", "adt": adt, "variant": goodv, "idx": goodi, "fields": ["0"]}, "ops": [_mv(acc)]}, span)],
                                         {"k": "goto", "target": cont, "span": span})
                    good_bb = _new_block(body, [_assign(_pl(acc), {"k": "use", "op": payload}, span)], {"k": "goto", "target": sk["header"], "span": span})
                    cl_args = [_mv(acc), sk["elem"]]
                else:
                    unit = _new_local(body, "()")
                    init = sk["pre"]
                    exit_bb = _new_block(body, [_assign(_pl(unit), {"k": "aggregate", "kind": {"k": "tuple"}, "ops": []}, span),
                                                _assign(copy.deepcopy(dest), {"k": "aggregate", "kind": {"k": "adt", "adt": adt, "variant": goodv, "idx": goodi, "fields": ["0"]}, "ops": [_mv(unit)]}, span)],
                                         {"k": "goto", "target": cont, "span": span})
                    good_bb = sk["header"]
                    cl_args = [sk["elem"]]
                bad_bb = _new_block(body, [_assign(copy.deepcopy(dest), {"k": "use", "op": _mv(res)}, span)], {"k": "goto", "target": cont, "span": span})
                test = _new_block(body, [_assign(_pl(d2), {"k": "discriminant", "place": _pl(res), "adt": adt}, span)],
                                  {"k": "switch", "discr": _mv(d2), "discr_ty": "isize", "targets": [[str(goodi), good_bb], [str(badi), bad_bb]], "otherwise": _unreachable(body, span), "span": span})
                entry = _inline_closure(body, cb, args[-1], cl_args, res, test, span)
                sk["wire"](exit_bb, entry)
                blk["term"] = {"k": "goto", "target": init, "span": span}
                used_closures.add(cid)
                hosts.add(body["id"])
                n_done += 1
            elif path == "std::iter::Iterator::fold" and len(args) == 3:
                # acc = init; for x in it { acc = f(acc, x) }
                cid = _closure_id_of(body, args[2])
                cb = bodies.get(cid)
                if cb is None or dest["proj"]:
                    continue
                acc = dest["local"]
                res = _new_local(body, cb["locals"][0]["ty"])
                sk = _loop_skeleton(body, args[0], span)
                init = _new_block(body, [_assign(_pl(acc), {"k": "use", "op": copy.deepcopy(args[1])}, span)], {"k": "goto", "target": sk["pre"], "span": span})
                exit_bb = _new_block(body, [], {"k": "goto", "target": cont, "span": span})
                back = _new_block(body, [_assign(_pl(acc), {"k": "use", "op": _mv(res)}, span)], {"k": "goto", "target": sk["header"], "span": span})
                entry = _inline_closure(body, cb, args[2], [_mv(acc), sk["elem"]], res, back, span)
                sk["wire"](exit_bb, entry)
                blk["term"] = {"k": "goto", "target": init, "span": span}
                used_closures.add(cid)
                hosts.add(body["id"])
                n_done += 1
            elif path in ("std::result::Result::<T, E>::map_err", "std::option::Option::<T>::ok_or_else") and len(args) == 2:
                cid = _closure_id_of(body, args[1])
                cb = bodies.get(cid)
                if cb is None or args[0]["k"] not in ("copy", "move"):
                    continue
                is_res = path.endswith("map_err")
                src = _new_local(body, "scrutinee")
                res = _new_local(body, cb["locals"][0]["ty"])
                d2 = _new_local(body, "isize")
                adt = "std::result::Result" if is_res else "std::option::Option"
                goodv, goodi, badv, badi = ("Ok", 0, "Err", 1) if is_res else ("Some", 1, "None", 0)
                payload = _mv(src, [{"k": "downcast", "variant": goodv, "idx": goodi, "adt": adt}, {"k": "field", "i": 0, "name": "0", "ty": "item"}])
                good_bb = _new_block(body, [_assign(copy.deepcopy(dest), {"k": "aggregate", "kind": {"k": "adt", "adt": "std::result::Result", "variant": "Ok", "idx": 0, "fields": ["0"]}, "ops": [payload]}, span)],
                                     {"k": "goto", "target": cont, "span": span})
                wrap_bb = _new_block(body, [_assign(copy.deepcopy(dest), {"k": "aggregate", "kind": {"k": "adt", "adt": "std::result::Result", "variant": "Err", "idx": 1, "fields": ["0"]}, "ops": [_mv(res)]}, span)],
                                     {"k": "goto", "target": cont, "span": span})
                cl_args = [_mv(src, [{"k": "downcast", "variant": "Err", "idx": 1, "adt": adt}, {"k": "field", "i": 0, "name": "0", "ty": "error"}])] if is_res else []
                entry = _inline_closure(body, cb, args[1], cl_args, res, wrap_bb, span)
                sw = _new_block(body, [_assign(_pl(src), {"k": "use", "op": copy.deepcopy(args[0])}, span),
                                       _assign(_pl(d2), {"k": "discriminant", "place": _pl(src), "adt": adt}, span)],
                                {"k": "switch", "discr": _mv(d2), "discr_ty": "isize", "targets": [[str(goodi), good_bb], [str(badi), entry]], "otherwise": _unreachable(body, span), "span": span})
                blk["term"] = {"k": "goto", "target": sw, "span": span}
                used_closures.add(cid)
                hosts.add(body["id"])
                n_done += 1
            elif path == "std::iter::Iterator::next" and len(args) == 1 and not dest["proj"] and not blk.get("map_done"):
                # `for x in it.map(f)`: the loop's `next` is the inner iterator's `next`
                # followed by f on the element
                src = _iter_source_local(body, args[0])
                if src is None:
                    continue
                mc = _resolve_map_call(body, src)
                if mc is None:
                    continue
                mbi, mt = mc
                cid = _closure_id_of(body, mt["args"][1])
                cb = bodies.get(cid)
                if cb is None:
                    continue
                # only when this `next` is the sole consumer of that map adaptor
                n_next = 0
                for b2 in body["blocks"]:
                    t2 = b2["term"]
                    if not b2["cleanup"] and t2["k"] == "call" and t2["callee"].get("path") == "std::iter::Iterator::next" and t2["args"] \
                            and _iter_source_local(body, t2["args"][0]) == src:
                        n_next += 1
                if n_next != 1:
                    continue
                n0 = _new_local(body, "std::option::Option<inner item>")
                d0 = _new_local(body, "isize")
                res = _new_local(body, cb["locals"][0]["ty"])
                none_bb = _new_block(body, [_assign(copy.deepcopy(dest), {"k": "aggregate", "kind": {"k": "adt", "adt": "std::option::Option", "variant": "None", "idx": 0, "fields": []}, "ops": []}, span)],
                                     {"k": "goto", "target": cont, "span": span})
                elem = _mv(n0, [{"k": "downcast", "variant": "Some", "idx": 1, "adt": "std::option::Option"}, {"k": "field", "i": 0, "name": "0", "ty": "item"}])
                if mt["callee"].get("path") == "std::iter::Iterator::filter":
                    # `it.filter(p)`: take the next element of `it`; if !p(&x) try again, else Some(x)
                    el = _new_local(body, "item")
                    elref = _new_local(body, "&item")
                    some_bb = _new_block(body, [_assign(copy.deepcopy(dest), {"k": "aggregate", "kind": {"k": "adt", "adt": "std::option::Option", "variant": "Some", "idx": 1, "fields": ["0"]}, "ops": [_mv(el)]}, span)],
                                         {"k": "goto", "target": cont, "span": span})
                    test = _new_block(body, [], {"k": "switch", "discr": _mv(res), "discr_ty": "bool", "targets": [["0", blk["i"]]], "otherwise": some_bb, "span": span})
                    centry = _inline_closure(body, cb, mt["args"][1], [_cp(elref)], res, test, span)
                    entry = _new_block(body, [_assign(_pl(el), {"k": "use", "op": elem}, span), _assign(_pl(elref), {"k": "ref", "mut": False, "place": _pl(el)}, span)],
                                       {"k": "goto", "target": centry, "span": span})
                else:
                    some_bb = _new_block(body, [_assign(copy.deepcopy(dest), {"k": "aggregate", "kind": {"k": "adt", "adt": "std::option::Option", "variant": "Some", "idx": 1, "fields": ["0"]}, "ops": [_mv(res)]}, span)],
                                         {"k": "goto", "target": cont, "span": span})
                    entry = _inline_closure(body, cb, mt["args"][1], [elem], res, some_bb, span)
                sw = _new_block(body, [_assign(_pl(d0), {"k": "discriminant", "place": _pl(n0), "adt": "std::option::Option"}, span)],
                                {"k": "switch", "discr": _mv(d0), "discr_ty": "isize", "targets": [["0", none_bb], ["1", entry]], "otherwise": _unreachable(body, span), "span": span})
                t["dest"] = _pl(n0)
                t["target"] = sw
                blk["map_done"] = True
                # the `map` call itself becomes a move of the inner iterator
                mb = body["blocks"][mbi]
                mb["stmts"].append(_assign(copy.deepcopy(mt["dest"]), {"k": "use", "op": copy.deepcopy(mt["args"][0])}, span))
                mb["term"] = {"k": "goto", "target": mt["target"], "span": span}
                used_closures.add(cid)
                hosts.add(body["id"])
                n_done += 1
            elif path in _MATCH_COMBINATORS and len(args) == 2:
                # good arm / bad arm of the match the combinator abbreviates
                cid = _closure_id_of(body, args[1])
                cb = bodies.get(cid)
                if cb is None or args[0]["k"] not in ("copy", "move"):
                    continue
                adt, on, wrap = _MATCH_COMBINATORS[path]
                is_res = adt == "std::result::Result"
                src = _new_local(body, "scrutinee")
                res = _new_local(body, cb["locals"][0]["ty"])
                d2 = _new_local(body, "isize")
                goodv, goodi, badv, badi = ("Ok", 0, "Err", 1) if is_res else ("Some", 1, "None", 0)
                goodp = _mv(src, [{"k": "downcast", "variant": goodv, "idx": goodi, "adt": adt}, {"k": "field", "i": 0, "name": "0", "ty": "item"}])
                badp = _mv(src, [{"k": "downcast", "variant": "Err", "idx": 1, "adt": adt}, {"k": "field", "i": 0, "name": "0", "ty": "error"}]) if is_res else None

                def agg(variant, ops):
                    return {"k": "aggregate", "kind": {"k": "adt", "adt": adt, "variant": variant, "idx": {"Ok": 0, "Err": 1, "None": 0, "Some": 1}[variant], "fields": ["0"] if ops else []}, "ops": ops}
                if on == "good":
                    # closure runs on the Ok/Some payload; the other arm passes through
                    out_rv = agg(goodv, [_mv(res)]) if wrap else {"k": "use", "op": _mv(res)}
                    after = _new_block(body, [_assign(copy.deepcopy(dest), out_rv, span)], {"k": "goto", "target": cont, "span": span})
                    entry = _inline_closure(body, cb, args[1], [goodp], res, after, span)
                    other = _new_block(body, [_assign(copy.deepcopy(dest), agg(badv, [badp] if is_res else []), span)], {"k": "goto", "target": cont, "span": span})
                    tg = [[str(goodi), entry], [str(badi), other]]
                    oth = other
                else:
                    # unwrap_or_else: closure runs on the Err payload / on None
                    after = _new_block(body, [_assign(copy.deepcopy(dest), {"k": "use", "op": _mv(res)}, span)], {"k": "goto", "target": cont, "span": span})
                    entry = _inline_closure(body, cb, args[1], [badp] if is_res else [], res, after, span)
                    other = _new_block(body, [_assign(copy.deepcopy(dest), {"k": "use", "op": goodp}, span)], {"k": "goto", "target": cont, "span": span})
                    tg = [[str(goodi), other], [str(badi), entry]]
                    oth = entry
                sw = _new_block(body, [_assign(_pl(src), {"k": "use", "op": copy.deepcopy(args[0])}, span),
                                       _assign(_pl(d2), {"k": "discriminant", "place": _pl(src), "adt": adt}, span)],
                                {"k": "switch", "discr": _mv(d2), "discr_ty": "isize", "targets": tg, "otherwise": _unreachable(body, span), "span": span})
                blk["term"] = {"k": "goto", "target": sw, "span": span}
                used_closures.add(cid)
                hosts.add(body["id"])
                n_done += 1
            elif t["callee"].get("kind") == "indirect" and t["callee"].get("op", {}).get("k") in ("copy", "move") and not dest["proj"]:
                # a call through a function pointer whose value is known: a variant constructor handed
                # down as `fn(String) -> Reply` builds that variant
                cur = t["callee"]["op"]
                ctor = None
                for _ in range(6):
                    if cur["k"] == "const":
                        ctor = (cur.get("fn") or {}).get("path")
                        break
                    if cur["k"] not in ("copy", "move") or cur["place"]["proj"]:
                        break
                    dfn = _single_assign(body, cur["place"]["local"])
                    if dfn is None or dfn[0] != "assign" or dfn[1]["k"] not in ("use", "cast"):
                        break
                    cur = dfn[1]["op"]
                if ctor and "::" in ctor:
                    adt_path, vname = ctor.rsplit("::", 1)
                    adt = next((a for a in raw["adts"] if a["path"] == adt_path and a["kind"] == "enum"), None)
                    var = next((v for v in adt["variants"] if v["name"] == vname), None) if adt else None
                    if var is not None and len(var["fields"]) == len(args):
                        blk["stmts"].append(_assign(copy.deepcopy(dest), {"k": "aggregate", "kind": {"k": "adt", "adt": adt_path, "variant": vname, "idx": var["idx"],
                                                                                          "fields": [fl["name"] for fl in var["fields"]]}, "ops": copy.deepcopy(args)}, span))
                        blk["term"] = {"k": "goto", "target": cont, "span": span}
                        hosts.add(body["id"])
                        n_done += 1
            elif path in ("std::option::Option::<T>::zip",) and len(args) == 2 and all(a["k"] in ("copy", "move") and not a["place"]["proj"] for a in args):
                # a.zip(b)  ->  match (a, b) { (Some(x), Some(y)) => Some((x, y)), _ => None }
                la, lb = args[0]["place"]["local"], args[1]["place"]["local"]
                d1 = _new_local(body, "isize")
                d2 = _new_local(body, "isize")
                tup = _new_local(body, "(zip pair)")
                pay = lambda l: _mv(l, [{"k": "downcast", "variant": "Some", "idx": 1, "adt": "std::option::Option"}, {"k": "field", "i": 0, "name": "0", "ty": "item"}])
                some_bb = _new_block(body, [_assign(_pl(tup), {"k": "aggregate", "kind": {"k": "tuple"}, "ops": [pay(la), pay(lb)]}, span),
                                            _assign(copy.deepcopy(dest), {"k": "aggregate", "kind": {"k": "adt", "adt": "std::option::Option", "variant": "Some", "idx": 1, "fields": ["0"]}, "ops": [_mv(tup)]}, span)],
                                     {"k": "goto", "target": cont, "span": span})
                none_bb = _new_block(body, [_assign(copy.deepcopy(dest), {"k": "aggregate", "kind": {"k": "adt", "adt": "std::option::Option", "variant": "None", "idx": 0, "fields": []}, "ops": []}, span)],
                                     {"k": "goto", "target": cont, "span": span})
                t2 = _new_block(body, [_assign(_pl(d2), {"k": "discriminant", "place": _pl(lb), "adt": "std::option::Option"}, span)],
                                {"k": "switch", "discr": _mv(d2), "discr_ty": "isize", "targets": [["0", none_bb], ["1", some_bb]], "otherwise": _unreachable(body, span), "span": span})
                blk["stmts"].append(_assign(_pl(d1), {"k": "discriminant", "place": _pl(la), "adt": "std::option::Option"}, span))
                blk["term"] = {"k": "switch", "discr": _mv(d1), "discr_ty": "isize", "targets": [["0", none_bb], ["1", t2]], "otherwise": _unreachable(body, span), "span": span}
                hosts.add(body["id"])
                n_done += 1
            elif path in ("std::iter::Extend::extend",) and len(args) == 2:
                sk = _loop_skeleton(body, args[1], span)
                pd = _new_local(body, "()")
                exit_bb = _new_block(body, [_assign(copy.deepcopy(dest), {"k": "aggregate", "kind": {"k": "tuple"}, "ops": []}, span)], {"k": "goto", "target": cont, "span": span})
                push_bb = _new_block(body, [], {"k": "call", "callee": _mk_callee("std::vec::Vec::<T, A>::push", "push"), "args": [copy.deepcopy(args[0]) if args[0]["k"] == "copy" else _cp(args[0]["place"]["local"], args[0]["place"]["proj"]), sk["elem"]],
                                                "dest": _pl(pd), "target": sk["header"], "unwind": None, "fn_span": span, "span": span})
                sk["wire"](exit_bb, push_bb)
                blk["term"] = {"k": "goto", "target": sk["pre"], "span": span}
                n_done += 1
    for body in raw["bodies"]:
        if body["id"] in hosts:
            thread_known_variants(body, bools=True)
    for cid in called_closures:
        left = False
        for b in raw["bodies"]:
            for blk2 in b["blocks"]:
                t2 = blk2["term"]
                if t2["k"] == "call" and (t2["callee"].get("self_ty") or {}).get("closure") == cid:
                    left = True
        if not left:
            used_closures.add(cid)
    raw["desugared_closures"] = sorted(used_closures)
    # the closures now live inside their hosts: drop the stand-alone bodies (and their promoteds
    # and nested closures stay, they may be referenced from the inlined copy)
    if used_closures:
        caps = {}
        for b in raw["bodies"]:
            if b["id"] in used_closures and b["kind"] == "closure":
                caps[b["id"]] = b.get("captures", [])
        raw["closure_captures"] = caps
        # plain functions used as combinator arguments: dropped only if they are new (not on the
        # pinned tree) and nothing refers to them any more
        with open(os.path.join(HERE, "known_functions.json")) as f:
            known = set(json.load(f)["functions"])
        refs = set()

        def walk(x):
            if isinstance(x, dict):
                if x.get("k") == "const" and isinstance(x.get("fn"), dict):
                    refs.add(x["fn"].get("path"))
                if "callee" in x and isinstance(x["callee"], dict):
                    refs.add(x["callee"].get("path"))
                for v in x.values():
                    walk(v)
            elif isinstance(x, list):
                for v in x:
                    walk(v)
        for b in raw["bodies"]:
            if b["id"] not in used_closures:
                walk(b["blocks"])
        drop = {c for c in used_closures if (bodies[c]["kind"] == "closure") or (c not in known and c not in refs)}
        raw["bodies"] = [b for b in raw["bodies"] if b["id"] not in drop]
    return raw, n_done
