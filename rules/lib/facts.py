"""Loading and pretty-printing of the fact file written by engine/driver."""
import json


def place_str(p):
    s = "_%d" % p["local"]
    for e in p["proj"]:
        k = e["k"]
        if k == "deref":
            s = "(*%s)" % s
        elif k == "field":
            s = "%s.%s" % (s, e["name"] if e.get("name") is not None else e["i"])
        elif k == "downcast":
            s = "(%s as %s)" % (s, e.get("variant"))
        elif k == "index":
            s = "%s[_%d]" % (s, e["local"])
        elif k == "const_index":
            s = "%s[%s%s]" % (s, "-" if e["from_end"] else "", e["offset"])
        elif k == "subslice":
            s = "%s[%s..%s%s]" % (s, e["from"], "-" if e["from_end"] else "", e["to"])
        else:
            s = "%s.<%s>" % (s, k)
    return s


def op_str(o):
    k = o["k"]
    if k in ("copy", "move"):
        return "%s %s" % (k, place_str(o["place"]))
    if k == "const":
        if "fn" in o:
            return "fn " + o["fn"]["path"]
        return o["text"]
    return o.get("text", "?")


def rv_str(rv):
    k = rv["k"]
    if k == "use":
        return op_str(rv["op"])
    if k == "ref":
        return "&%s%s" % ("mut " if rv["mut"] else "", place_str(rv["place"]))
    if k == "raw_ptr":
        return "&raw %s" % place_str(rv["place"])
    if k == "cast":
        return "%s as %s (%s)" % (op_str(rv["op"]), rv["ty"]["s"], rv["kind"])
    if k == "binop":
        return "%s(%s, %s)" % (rv["op"], op_str(rv["a"]), op_str(rv["b"]))
    if k == "unop":
        return "%s(%s)" % (rv["op"], op_str(rv["a"]))
    if k == "discriminant":
        return "discriminant(%s)" % place_str(rv["place"])
    if k == "aggregate":
        kk = rv["kind"]
        name = kk["k"]
        if name == "adt":
            name = "%s::%s" % (kk["adt"], kk["variant"])
        elif name in ("closure", "coroutine"):
            name = "closure %s" % kk["body"]
        return "%s{%s}" % (name, ", ".join(op_str(o) for o in rv["ops"]))
    if k == "repeat":
        return "[%s; %s]" % (op_str(rv["op"]), rv["n"])
    return rv.get("text", k)


def term_str(t):
    k = t["k"]
    if k == "goto":
        return "goto bb%d" % t["target"]
    if k == "switch":
        return "switch(%s) [%s, otherwise: bb%d]" % (
            op_str(t["discr"]),
            ", ".join("%s: bb%s" % (v, b) for v, b in t["targets"]),
            t["otherwise"],
        )
    if k == "call":
        c = t["callee"]
        return "%s = %s(%s) -> %s%s" % (
            place_str(t["dest"]),
            c.get("full", c["path"]),
            ", ".join(op_str(a) for a in t["args"]),
            "bb%d" % t["target"] if t["target"] is not None else "!",
            " unwind bb%d" % t["unwind"] if t["unwind"] is not None else "",
        )
    if k == "drop":
        return "drop(%s) -> bb%d" % (place_str(t["place"]), t["target"])
    if k == "assert":
        m = t["msg"]
        return "assert(%s == %s, %s) -> bb%d" % (op_str(t["cond"]), t["expected"], m["k"], t["target"])
    return k


def loc(span):
    return "%s:%d" % (span["file"], span["line"])


def dump(body, cleanup=False):
    out = []
    out.append("fn %s  [%s] args=%d  %s" % (body["id"], body["kind"], body["arg_count"], loc(body["span"])))
    names = {}
    for d in body["debug"]:
        if "local" in d["value"]:
            names.setdefault(place_str(d["value"]), d["name"])
    for l in body["locals"]:
        nm = names.get("_%d" % l["i"])
        out.append("  let _%d: %s%s" % (l["i"], l["ty"]["s"], "  // " + nm if nm else ""))
    for d in body["debug"]:
        if "local" in d["value"] and d["value"]["proj"]:
            out.append("  debug %s => %s" % (d["name"], place_str(d["value"])))
    for b in body["blocks"]:
        if b["cleanup"] and not cleanup:
            continue
        out.append("  bb%d%s:" % (b["i"], " (cleanup)" if b["cleanup"] else ""))
        for s in b["stmts"]:
            if s["k"] == "assign":
                out.append("    %s = %s    // %d" % (place_str(s["place"]), rv_str(s["rv"]), s["span"]["line"]))
            else:
                out.append("    discriminant(%s) = %s" % (place_str(s["place"]), s["idx"]))
        out.append("    %s    // %d" % (term_str(b["term"]), b["term"]["span"]["line"]))
    return "\n".join(out)


def split_shared_switch_targets(d):
    """`A | B => x` makes two values of one switch jump to the same block, so the CFG edge
    (switch, x) stands for two outcomes.  Edge labels must mean one outcome each (a guard
    `taken only when the value is A` would otherwise also hold for B): every value that shares
    its target with another value (or with `otherwise`) gets an empty block of its own."""
    n = 0
    for b in d["bodies"]:
        blocks = b["blocks"]
        for blk in list(blocks):
            if blk["cleanup"]:
                continue
            t = blk["term"]
            if t["k"] != "switch":
                continue
            dests = [x for _, x in t["targets"]] + [t["otherwise"]]
            shared = {x for x in dests if dests.count(x) > 1}
            if not shared:
                continue
            new_targets = []
            for v, x in t["targets"]:
                if x in shared:
                    i = len(blocks)
                    blocks.append({"i": i, "cleanup": False, "stmts": [], "tramp": x, "term": {"k": "goto", "target": x, "span": t["span"]}})
                    new_targets.append([v, i])
                    n += 1
                else:
                    new_targets.append([v, x])
            t["targets"] = new_targets
    return n


class Facts:
    def __init__(self, path):
        self.path = path
        with open(path) as f:
            d = json.load(f)
        from .simplify import strip_drop_scaffolding
        self.stripped = strip_drop_scaffolding(d)
        from .canon import canonicalise_moves
        d, self.moved = canonicalise_moves(d)
        from .canon import canonicalise_adts
        d, self.renamed_adts = canonicalise_adts(d)
        from .canon import canonicalise
        d, self.renamed = canonicalise(d)
        from .canon import canonicalise_fields
        d, self.renamed_fields = canonicalise_fields(d)
        from .canon import tupleise_new_structs
        d, self.tupleised = tupleise_new_structs(d)
        from .canon import lower_new_flag_enums
        d, self.flag_enums = lower_new_flag_enums(d)
        from .inline import inline_new_functions, expose_error_conversions
        d, self.conversions = expose_error_conversions(d)
        d, self.inlined = inline_new_functions(d)
        from .inline import desugar_combinators, thread_known_variants, fold_constant_variant_switches
        d, self.desugared = desugar_combinators(d)
        # the bool a `matches!(x, P)` leaves in a compiler temporary is tested right away: the
        # test is threaded to the arm that set it, in every body (known Result / Option / Try
        # variants along straight-line chains likewise)
        self.threaded = 0
        for b in d["bodies"]:
            if b["kind"] != "promoted" and not b.get("in_test") and not b.get("derived"):
                self.threaded += fold_constant_variant_switches(b)
                n1 = thread_known_variants(b, bools=True, budget=40)
                self.threaded += n1
                if n1:
                    # a test behind a test that was just threaded (`if helper(..)? {`)
                    self.threaded += thread_known_variants(b, bools=True, budget=40)
        # blocks that no path from the entry reaches any more (arms cut off by the threading
        # above) are not part of the function
        self.pruned = 0
        for b in d["bodies"]:
            if b["kind"] == "promoted" or not b["blocks"]:
                continue
            from .inline import _succ
            seen, work = set(), [0]
            while work:
                i = work.pop()
                if i in seen or i >= len(b["blocks"]):
                    continue
                seen.add(i)
                t = b["blocks"][i]["term"]
                nxt = list(_succ(t))
                if t["k"] == "yield":
                    nxt += [x for x in (t.get("resume"), t.get("drop")) if x is not None]
                work.extend(nxt)
            for blk in b["blocks"]:
                if not blk["cleanup"] and blk["i"] not in seen:
                    blk["cleanup"] = True
                    blk["dead"] = True
                    self.pruned += 1
        self.split_edges = split_shared_switch_targets(d)
        self.raw = d
        self.meta = d["meta"]
        self.bodies = {}
        for b in d["bodies"]:
            # closure ids are unique per def path; keep first on a clash and suffix others
            bid = b["id"]
            n = 1
            while bid in self.bodies:
                n += 1
                bid = "%s#%d" % (b["id"], n)
            b["id"] = bid
            self.bodies[bid] = b
        self.adts = {a["path"]: a for a in d["adts"]}
        self.traits = {t["path"]: t for t in d["traits"]}
        self.impls = d["impls"]
        self.consts = d["consts"]

    def body(self, bid):
        return self.bodies[bid]


if __name__ == "__main__":
    import sys
    f = Facts(sys.argv[1])
    for pat in sys.argv[2:]:
        for bid, b in f.bodies.items():
            if pat == bid or (pat.endswith("*") and bid.startswith(pat[:-1])):
                print(dump(b))
                print()
