"""Rename tolerance: the rules name some functions of ruler's internal API.  If such a name
is missing on the analysed tree but exactly one function of the same module and impl type
has the identical signature, the facts are rewritten to the canonical name before any rule
runs (a pure rename must not disturb a rule; a changed signature still fails closed)."""
import json
import os

HERE = os.path.dirname(os.path.dirname(os.path.abspath(__file__)))


def _sig(b):
    return ((b.get("impl_self_ty") or {}).get("s"), b.get("impl_trait"), tuple(t["s"] for t in b.get("inputs", [])), b.get("output", {}).get("s"), b["kind"])


def rename_map(raw):
    with open(os.path.join(HERE, "api_signatures.json")) as f:
        table = json.load(f)["functions"]
    present = {b["id"] for b in raw["bodies"]}
    by_sig = {}
    for b in raw["bodies"]:
        if b["kind"] in ("fn", "assoc_fn") and not b.get("in_test"):
            by_sig.setdefault((b["id"].split("::")[0],) + _sig(b), []).append(b["id"])
    out = {}
    taken = set(table) & present
    for name, s in table.items():
        if name in present:
            continue
        key = (s["module"], s["impl_self_ty"], s["impl_trait"], tuple(s["inputs"]), s["output"], s["kind"])
        cands = [c for c in by_sig.get(key, []) if c not in taken and c not in table]
        if len(cands) == 1:
            out[cands[0]] = name
    return out


def _sub(s, m):
    if not isinstance(s, str):
        return s
    for old, new in m.items():
        if s == old:
            return new
        if s.startswith(old + "::"):
            return new + s[len(old):]
    return s


def canonicalise(raw):
    m = rename_map(raw)
    if not m:
        return raw, {}

    def walk(x):
        if isinstance(x, dict):
            for k, v in list(x.items()):
                if k in ("id", "path", "resolved", "root", "parent", "of", "body", "closure", "fndef", "item") and isinstance(v, str):
                    x[k] = _sub(v, m)
                elif k == "full" and isinstance(v, str):
                    for old, new in m.items():
                        base_old = old.split("::<")[0]
                    x[k] = v
                else:
                    walk(v)
        elif isinstance(x, list):
            for v in x:
                walk(v)
    walk(raw)
    return raw, m


def canonicalise_fields(raw):
    """Field rename tolerance: a struct of the pinned tree whose fields kept their number,
    order and types but not their names gets the pinned names back (rules name a few private
    fields: `path`, `system_box`, `file_infos`, ..)."""
    with open(os.path.join(HERE, "known_functions.json")) as f:
        table = json.load(f).get("adt_fields", {})
    ren = {}
    for a in raw["adts"]:
        want = table.get(a["path"])
        if want is None or a["kind"] != "struct":
            continue
        have = a["variants"][0]["fields"]
        if len(have) != len(want) or [h["name"] for h in have] == [w[0] for w in want]:
            continue
        # same multiset of names in another order is a reordering, not a rename: positions are
        # matched by type; ambiguous when a type occurs twice among the renamed fields
        if all(h["ty"]["s"] == w[1] for h, w in zip(have, want)):
            changed = [(h["name"], w[0]) for h, w in zip(have, want) if h["name"] != w[0]]
            ren[a["path"]] = {i: w[0] for i, w in enumerate(want)}
            for h, w in zip(have, want):
                h["name"] = w[0]
    if not ren:
        return raw, {}

    def walk(x):
        if isinstance(x, dict):
            if x.get("k") == "field" and x.get("of") in ren and isinstance(x.get("i"), int):
                x["name"] = ren[x["of"]].get(x["i"], x.get("name"))
            elif x.get("k") == "adt" and x.get("adt") in ren and isinstance(x.get("fields"), list):
                m = ren[x["adt"]]
                if len(x["fields"]) == len(m):
                    x["fields"] = [m[i] for i in range(len(m))]
            for v in x.values():
                walk(v)
        elif isinstance(x, list):
            for v in x:
                walk(v)
    walk(raw["bodies"])
    return raw, ren


def canonicalise_adts(raw):
    """Type rename tolerance: a struct of the pinned tree that is missing, while exactly one
    new struct of the same module has the same sequence of field types, is that struct under
    a new name; the pinned name is restored everywhere (type strings, paths)."""
    import re
    with open(os.path.join(HERE, "known_functions.json")) as f:
        k = json.load(f)
    table = k.get("adt_fields", {})
    known = set(k.get("adts", []))
    present = {a["path"]: a for a in raw["adts"]}
    ren = {}
    for path, want in table.items():
        if path in present or "::" not in path:
            continue
        mod = path.rsplit("::", 1)[0]
        cands = []
        for a in raw["adts"]:
            if a["path"] in known or a["kind"] != "struct" or a.get("in_test") or a["path"].rsplit("::", 1)[0] != mod:
                continue
            have = a["variants"][0]["fields"]
            if len(have) == len(want) and all(h["ty"]["s"] == w[1] for h, w in zip(have, want)):
                cands.append(a["path"])
        if len(cands) == 1 and cands[0] not in ren:
            ren[cands[0]] = path
    if not ren:
        return raw, {}
    text = json.dumps(raw)
    for new, old in ren.items():
        text = re.sub(r"(?<![A-Za-z0-9_:])" + re.escape(new) + r"(?![A-Za-z0-9_])", old, text)
        # the variant name of a struct is its last path segment
        nl, ol = new.rsplit("::", 1)[1], old.rsplit("::", 1)[1]
        text = text.replace('"variant": "%s"' % nl, '"variant": "%s"' % ol).replace('"name": "%s", "idx": 0' % nl, '"name": "%s", "idx": 0' % ol)
    return json.loads(text), ren


def tupleise_new_structs(raw):
    """A struct that does not exist on the pinned tree is a refactoring's way of naming a
    bundle of values (a `Worker { ticket, handle }` instead of a `(ticket, handle)` pair, a
    `Job { .. }` captured by a thread).  It is presented to the rules as the tuple of its
    fields, in declaration order."""
    with open(os.path.join(HERE, "known_functions.json")) as f:
        known = set(json.load(f).get("adts", []))
    new = {a["path"] for a in raw["adts"] if a["kind"] == "struct" and not a.get("in_test") and a["path"] not in known and "::" in a["path"]}
    if not new:
        return raw, set()

    def walk(x):
        if isinstance(x, dict):
            if x.get("k") == "field" and x.get("of") in new:
                x["name"] = None
            if x.get("k") == "aggregate" and isinstance(x.get("kind"), dict) and x["kind"].get("k") == "adt" and x["kind"].get("adt") in new:
                x["kind"] = {"k": "tuple", "was": x["kind"]["adt"]}
            for v in x.values():
                walk(v)
        elif isinstance(x, list):
            for v in x:
                walk(v)
    walk(raw["bodies"])
    return raw, new
