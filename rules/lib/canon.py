"""Rename tolerance: the rules name some functions of ruler's internal API.  If such a name
is missing on the analysed tree but exactly one function of the same module and impl type
has the identical signature, the facts are rewritten to the canonical name before any rule
runs (a pure rename must not disturb a rule; a changed signature still fails closed)."""
import json
import os

HERE = os.path.dirname(os.path.dirname(os.path.abspath(__file__)))


def _sig(b):
    return ((b.get("impl_self_ty") or {}).get("s"), b.get("impl_trait"), tuple(t["s"] for t in b.get("inputs", [])), b.get("output", {}).get("s"), b["kind"])


def rename_map(raw):
    with open(os.path.join(HERE, "api_signatures.json")) as f:
        table = json.load(f)["functions"]
    present = {b["id"] for b in raw["bodies"]}
    by_sig = {}
    for b in raw["bodies"]:
        if b["kind"] in ("fn", "assoc_fn") and not b.get("in_test"):
            by_sig.setdefault((b["id"].split("::")[0],) + _sig(b), []).append(b["id"])
    out = {}
    taken = set(table) & present
    for name, s in table.items():
        if name in present:
            continue
        key = (s["module"], s["impl_self_ty"], s["impl_trait"], tuple(s["inputs"]), s["output"], s["kind"])
        cands = [c for c in by_sig.get(key, []) if c not in taken and c not in table]
        if len(cands) == 1:
            out[cands[0]] = name
    return out


def _sub(s, m):
    if not isinstance(s, str):
        return s
    for old, new in m.items():
        if s == old:
            return new
        if s.startswith(old + "::"):
            return new + s[len(old):]
    return s


def canonicalise(raw):
    m = rename_map(raw)
    if not m:
        return raw, {}

    def walk(x):
        if isinstance(x, dict):
            for k, v in list(x.items()):
                if k in ("id", "path", "resolved", "root", "parent", "of", "body", "closure", "fndef", "item") and isinstance(v, str):
                    x[k] = _sub(v, m)
                elif k == "full" and isinstance(v, str):
                    for old, new in m.items():
                        base_old = old.split("::<")[0]
                    x[k] = v
                else:
                    walk(v)
        elif isinstance(x, list):
            for v in x:
                walk(v)
    walk(raw)
    return raw, m
