"""Rename tolerance: the rules name some functions of ruler's internal API.  If such a name
is missing on the analysed tree but exactly one function of the same module and impl type
has the identical signature, the facts are rewritten to the canonical name before any rule
runs (a pure rename must not disturb a rule; a changed signature still fails closed)."""
import json
import os

HERE = os.path.dirname(os.path.dirname(os.path.abspath(__file__)))


def _sig(b):
    return ((b.get("impl_self_ty") or {}).get("s"), b.get("impl_trait"), tuple(t["s"] for t in b.get("inputs", [])), b.get("output", {}).get("s"), b["kind"])


def rename_map(raw):
    with open(os.path.join(HERE, "api_signatures.json")) as f:
        table = json.load(f)["functions"]
    present = {b["id"] for b in raw["bodies"]}
    by_sig = {}
    for b in raw["bodies"]:
        if b["kind"] in ("fn", "assoc_fn") and not b.get("in_test"):
            by_sig.setdefault((b["id"].split("::")[0],) + _sig(b), []).append(b["id"])
    out = {}
    taken = set(table) & present
    for name, s in table.items():
        if name in present:
            continue
        key = (s["module"], s["impl_self_ty"], s["impl_trait"], tuple(s["inputs"]), s["output"], s["kind"])
        cands = [c for c in by_sig.get(key, []) if c not in taken and c not in table]
        if len(cands) == 1:
            out[cands[0]] = name
    return out


def _sub(s, m):
    if not isinstance(s, str):
        return s
    for old, new in m.items():
        if s == old:
            return new
        if s.startswith(old + "::"):
            return new + s[len(old):]
    return s


def canonicalise(raw):
    m = rename_map(raw)
    if not m:
        return raw, {}

    def walk(x):
        if isinstance(x, dict):
            for k, v in list(x.items()):
                if k in ("id", "path", "resolved", "root", "parent", "of", "body", "closure", "fndef", "item") and isinstance(v, str):
                    x[k] = _sub(v, m)
                elif k == "full" and isinstance(v, str):
                    for old, new in m.items():
                        base_old = old.split("::<")[0]
                    x[k] = v
                else:
                    walk(v)
        elif isinstance(x, list):
            for v in x:
                walk(v)
    walk(raw)
    return raw, m


def canonicalise_fields(raw):
    """Field rename tolerance: a struct of the pinned tree whose fields kept their number,
    order and types but not their names gets the pinned names back (rules name a few private
    fields: `path`, `system_box`, `file_infos`, ..)."""
    with open(os.path.join(HERE, "known_functions.json")) as f:
        table = json.load(f).get("adt_fields", {})
    ren = {}
    for a in raw["adts"]:
        want = table.get(a["path"])
        if want is None or a["kind"] != "struct":
            continue
        have = a["variants"][0]["fields"]
        if len(have) != len(want) or [h["name"] for h in have] == [w[0] for w in want]:
            continue
        # same multiset of names in another order is a reordering, not a rename: positions are
        # matched by type; ambiguous when a type occurs twice among the renamed fields
        if all(h["ty"]["s"] == w[1] for h, w in zip(have, want)):
            changed = [(h["name"], w[0]) for h, w in zip(have, want) if h["name"] != w[0]]
            ren[a["path"]] = {i: w[0] for i, w in enumerate(want)}
            for h, w in zip(have, want):
                h["name"] = w[0]
    if not ren:
        return raw, {}

    def walk(x):
        if isinstance(x, dict):
            if x.get("k") == "field" and x.get("of") in ren and isinstance(x.get("i"), int):
                x["name"] = ren[x["of"]].get(x["i"], x.get("name"))
            elif x.get("k") == "adt" and x.get("adt") in ren and isinstance(x.get("fields"), list):
                m = ren[x["adt"]]
                if len(x["fields"]) == len(m):
                    x["fields"] = [m[i] for i in range(len(m))]
            for v in x.values():
                walk(v)
        elif isinstance(x, list):
            for v in x:
                walk(v)
    walk(raw["bodies"])
    return raw, ren


def canonicalise_adts(raw):
    """Type rename tolerance: a struct of the pinned tree that is missing, while exactly one
    new struct of the same module has the same sequence of field types, is that struct under
    a new name; the pinned name is restored everywhere (type strings, paths)."""
    import re
    with open(os.path.join(HERE, "known_functions.json")) as f:
        k = json.load(f)
    table = k.get("adt_fields", {})
    known = set(k.get("adts", []))
    present = {a["path"]: a for a in raw["adts"]}
    ren = {}
    for path, want in table.items():
        if path in present or "::" not in path:
            continue
        mod = path.rsplit("::", 1)[0]
        cands = []
        for a in raw["adts"]:
            if a["path"] in known or a["kind"] != "struct" or a.get("in_test") or a["path"].rsplit("::", 1)[0] != mod:
                continue
            have = a["variants"][0]["fields"]
            if len(have) == len(want) and all(h["ty"]["s"] == w[1] for h, w in zip(have, want)):
                cands.append(a["path"])
        if len(cands) == 1 and cands[0] not in ren:
            ren[cands[0]] = path
    if not ren:
        return raw, {}
    text = json.dumps(raw)
    for new, old in ren.items():
        text = re.sub(r"(?<![A-Za-z0-9_:])" + re.escape(new) + r"(?![A-Za-z0-9_])", old, text)
        # the variant name of a struct is its last path segment
        nl, ol = new.rsplit("::", 1)[1], old.rsplit("::", 1)[1]
        text = text.replace('"variant": "%s"' % nl, '"variant": "%s"' % ol).replace('"name": "%s", "idx": 0' % nl, '"name": "%s", "idx": 0' % ol)
    return json.loads(text), ren


def tupleise_new_structs(raw):
    """A struct that does not exist on the pinned tree is a refactoring's way of naming a
    bundle of values (a `Worker { ticket, handle }` instead of a `(ticket, handle)` pair, a
    `Job { .. }` captured by a thread).  It is presented to the rules as the tuple of its
    fields, in declaration order."""
    with open(os.path.join(HERE, "known_functions.json")) as f:
        known = set(json.load(f).get("adts", []))
    new = {a["path"] for a in raw["adts"] if a["kind"] == "struct" and not a.get("in_test") and a["path"] not in known and "::" in a["path"]}
    if not new:
        return raw, set()

    def walk(x):
        if isinstance(x, dict):
            if x.get("k") == "field" and x.get("of") in new:
                x["name"] = None
            if x.get("k") == "aggregate" and isinstance(x.get("kind"), dict) and x["kind"].get("k") == "adt" and x["kind"].get("adt") in new:
                x["kind"] = {"k": "tuple", "was": x["kind"]["adt"]}
            for v in x.values():
                walk(v)
        elif isinstance(x, list):
            for v in x:
                walk(v)
    walk(raw["bodies"])
    return raw, new


def canonicalise_moves(raw):
    """Move tolerance: a type or function of the pinned tree that is missing under its path,
    while exactly one *new* item of the same name (and, for a function, the same signature)
    exists in another module, is that item after a move (a file split, a helper moved next to
    its user).  The pinned path is restored everywhere, and a moved function is presented
    with the file of its pinned home (rules scope some roles by file)."""
    import re
    with open(os.path.join(HERE, "known_functions.json")) as f:
        k = json.load(f)
    with open(os.path.join(HERE, "api_signatures.json")) as f:
        api = json.load(f)["functions"]
    known_adts = set(k.get("adts", []))
    present_adts = {a["path"] for a in raw["adts"]}
    ren = {}
    for path in sorted(known_adts):
        if path in present_adts or "::" not in path:
            continue
        name = path.rsplit("::", 1)[1]
        cands = [a["path"] for a in raw["adts"] if a["path"] not in known_adts and not a.get("in_test") and "::" in a["path"]
                 and a["path"].rsplit("::", 1)[1] == name]
        if len(cands) == 1 and cands[0] not in ren:
            ren[cands[0]] = path
    if ren:
        text = json.dumps(raw)
        for new, old in ren.items():
            text = re.sub(r"(?<![A-Za-z0-9_:])" + re.escape(new) + r"(?![A-Za-z0-9_])", old, text)
        raw = json.loads(text)
    present = {b["id"] for b in raw["bodies"]}
    known_fns = set(k.get("functions", []))
    m = {}
    for name, s in api.items():
        if name in present or name.startswith("<"):
            continue
        last = name.rsplit("::", 1)[1]
        want = (s["impl_self_ty"], s["impl_trait"], tuple(s["inputs"]), s["output"], s["kind"])
        cands = [b["id"] for b in raw["bodies"] if b["kind"] in ("fn", "assoc_fn") and not b.get("in_test")
                 and b["id"] not in api and b["id"] not in known_fns and b["id"].rsplit("::", 1)[-1] == last and _sig(b) == want]
        if len(cands) == 1 and cands[0] not in m:
            m[cands[0]] = name
    if m:
        def walk(x):
            if isinstance(x, dict):
                for kk, v in list(x.items()):
                    if kk in ("id", "path", "resolved", "root", "parent", "of", "body", "closure", "fndef", "item") and isinstance(v, str):
                        x[kk] = _sub(v, m)
                    else:
                        walk(v)
            elif isinstance(x, list):
                for v in x:
                    walk(v)
        walk(raw)
    # a pinned function that now lives in another file keeps its pinned home for scoping
    moved_files = 0
    for b in raw["bodies"]:
        root = b.get("root") or b["id"]
        s = api.get(b["id"]) or api.get(root)
        if s and s.get("file") and b.get("span", {}).get("file") and b["span"]["file"] != s["file"] and not b.get("in_test"):
            b["span"]["real_file"] = b["span"]["file"]
            b["span"]["file"] = s["file"]
            moved_files += 1
    return raw, {"adts": ren, "fns": m, "files": moved_files}


def lower_new_flag_enums(raw):
    """A two-valued, field-less enum that does not exist on the pinned tree is a boolean by
    another name (`visited: bool` -> `stage: FrameStage`, `untouched` -> `TicketOrigin`).  It is
    presented to the rules as the bool it replaces: first variant = false, second = true;
    `discriminant(x)` becomes `x`, a derived `==` becomes a comparison of the two values."""
    import re
    with open(os.path.join(HERE, "known_functions.json")) as f:
        known = set(json.load(f).get("adts", []))
    E = {a["path"] for a in raw["adts"] if a["kind"] == "enum" and not a.get("in_test") and a["path"] not in known and "::" in a["path"]
         and len(a["variants"]) == 2 and all(not v["fields"] for v in a["variants"])}
    if not E:
        return raw, set()
    pat = re.compile(r"(?<![A-Za-z0-9_:])(" + "|".join(re.escape(e) for e in sorted(E, key=len, reverse=True)) + r")(?![A-Za-z0-9_:<])")

    def is_e(tystr):
        return isinstance(tystr, str) and tystr.lstrip("&").replace("mut ", "").strip() in E
    for body in raw["bodies"]:
        locs = body["locals"]
        disc_locals = set()
        for blk in body["blocks"]:
            for st in blk["stmts"]:
                if st["k"] != "assign":
                    continue
                rv = st["rv"]
                if rv["k"] == "aggregate" and rv["kind"].get("k") == "adt" and rv["kind"].get("adt") in E and not rv["ops"]:
                    st["rv"] = {"k": "use", "op": {"k": "const", "ty": {"s": "bool"}, "bits": str(rv["kind"]["idx"]),
                                                   "text": "const %s" % ("true" if rv["kind"]["idx"] else "false")}}
                elif rv["k"] == "discriminant" and rv.get("adt") in E:
                    st["rv"] = {"k": "use", "op": {"k": "copy", "place": rv["place"]}}
                    if not st["place"]["proj"]:
                        disc_locals.add(st["place"]["local"])
            t = blk["term"]
            if t["k"] == "call" and t["callee"].get("trait") == "std::cmp::PartialEq" and t["callee"].get("name") in ("eq", "ne") \
                    and (t["callee"].get("self_ty") or {}).get("s") in E and len(t["args"]) == 2 and t.get("target") is not None \
                    and all(a["k"] in ("copy", "move") for a in t["args"]):
                def deref(a):
                    return {"k": "copy", "place": {"local": a["place"]["local"], "proj": list(a["place"]["proj"]) + [{"k": "deref"}]}}
                blk["stmts"].append({"k": "assign", "place": t["dest"], "span": t["span"],
                                     "rv": {"k": "binop", "op": "Eq" if t["callee"]["name"] == "eq" else "Ne", "a": deref(t["args"][0]), "b": deref(t["args"][1])}})
                blk["term"] = {"k": "goto", "target": t["target"], "span": t["span"]}
        for l in disc_locals:
            locs[l]["ty"] = {"s": "bool"}
        for blk in body["blocks"]:
            t = blk["term"]
            if t["k"] == "switch" and t["discr"]["k"] in ("copy", "move") and not t["discr"]["place"]["proj"] and t["discr"]["place"]["local"] in disc_locals:
                t["discr_ty"] = "bool"
                tg = {v: d for v, d in t["targets"]}
                if "0" in tg and "1" in tg:
                    t["targets"] = [["0", tg["0"]]]
                    t["otherwise"] = tg["1"]
                elif "1" in tg:
                    t["targets"] = [["0", t["otherwise"]]]
                    t["otherwise"] = tg["1"]

    def walk(x):
        if isinstance(x, dict):
            if x.get("adt") in E and "s" in x:
                del x["adt"]
            for kk, v in list(x.items()):
                if kk in ("s", "ty") and isinstance(v, str) and pat.search(v):
                    x[kk] = pat.sub("bool", v)
                else:
                    walk(v)
        elif isinstance(x, list):
            for v in x:
                walk(v)
    walk(raw["bodies"])
    walk(raw["adts"])
    return raw, E
