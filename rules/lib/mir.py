"""Program representation used by the rules: per-function CFG with labelled edges (A2),
call graph (A1), value origins (A4), loops (A7) and reachability / must-pass-through
queries.  Everything here is generic; no property knowledge."""
from collections import defaultdict, deque
from .facts import Facts, place_str, op_str, rv_str, term_str, loc


class AnalysisError(Exception):
    """Raised when the analysis meets something it has no idiom for (fail closed)."""


# --------------------------------------------------------------------------- std tables
# Calls through which a value keeps its identity (origin of result = origin of arg 0).
PASS_THROUGH = {
    "std::mem::replace", "std::mem::take",          # the value returned is what the place held
    "std::ops::Deref::deref", "std::ops::DerefMut::deref_mut",
    "std::convert::AsRef::as_ref", "std::convert::AsMut::as_mut",
    "std::borrow::Borrow::borrow", "std::borrow::BorrowMut::borrow_mut",
    "std::clone::Clone::clone", "std::borrow::ToOwned::to_owned",
    "std::slice::<impl [T]>::to_vec", "core::slice::<impl [T]>::to_vec", "std::slice::<impl [T]>::into_vec",
    "std::vec::Vec::<T, A>::as_slice", "std::vec::Vec::<T, A>::as_mut_slice", "std::string::String::as_str", "std::string::String::as_mut_str",
    "std::boxed::Box::<T>::new",
    "std::string::ToString::to_string", "std::string::String::as_str",
    "std::convert::Into::into", "std::convert::From::from",
    "std::boxed::Box::<T>::new", "std::iter::IntoIterator::into_iter",
    "std::vec::Vec::<T, A>::as_slice", "std::vec::Vec::<T, A>::as_mut_slice",
    "std::string::String::as_bytes", "core::str::<impl str>::as_bytes",
    "core::str::<impl str>::to_string", "core::str::<impl str>::to_owned",
    "std::iter::Iterator::by_ref", "std::hint::must_use",
    "std::result::Result::<T, E>::map_err",      # keeps the variant and the Ok payload
    "std::mem::take", "std::mem::replace",        # the value that was in the place
    "std::option::Option::<T>::as_ref", "std::option::Option::<T>::as_mut",
    "std::result::Result::<T, E>::as_ref",
    "std::option::Option::<&T>::cloned", "std::option::Option::<&T>::copied",
}
# Calls that produce a traversal of arg 0 (result is an iterator over arg 0's elements).
ITER_SOURCES = {
    "core::slice::<impl [T]>::iter": "iter",
    "core::slice::<impl [T]>::iter_mut": "iter_mut",
    "std::vec::Vec::<T, A>::drain": "drain",
    "std::collections::BTreeSet::<T, A>::iter": "iter",
    "std::collections::BTreeMap::<K, V, A>::iter": "iter",
    "std::collections::HashMap::<K, V, S>::iter": "iter",
    "std::collections::HashMap::<K, V, S>::keys": "keys",
    "std::collections::HashMap::<K, V, S>::values": "values",
    "std::collections::HashSet::<T, S>::iter": "iter",
    "core::str::<impl str>::chars": "chars",
    "core::str::<impl str>::split": "split",
}
# Adaptors that keep every element (complete) / may drop elements (truncating).
ITER_COMPLETE = {
    "std::iter::Iterator::enumerate": "enumerate",
    "std::iter::Iterator::rev": "rev",
    "std::iter::Iterator::cloned": "cloned",
    "std::iter::Iterator::copied": "copied",
    "std::iter::Iterator::map": "map",
}
ITER_TRUNCATING = {
    "std::iter::Iterator::take", "std::iter::Iterator::skip", "std::iter::Iterator::step_by",
    "std::iter::Iterator::filter", "std::iter::Iterator::filter_map",
    "std::iter::Iterator::take_while", "std::iter::Iterator::skip_while",
    "std::iter::Iterator::nth", "std::iter::Iterator::peekable",
    "std::iter::Iterator::chain", "std::iter::Iterator::zip",
}
NEXT_CALLS = {"std::iter::Iterator::next"}
ITER_SOURCES.update({
    "std::collections::HashMap::<K, V, S, A>::iter": "iter",
    "std::collections::HashMap::<K, V, S, A>::keys": "keys",
    "std::collections::HashMap::<K, V, S, A>::values": "values",
    "std::collections::HashMap::<K, V, S, A>::into_iter": "into_iter",
    "std::collections::HashSet::<T, S, A>::iter": "iter",
    "std::collections::BTreeMap::<K, V, A>::into_iter": "into_iter",
})


def erase_generics(path):
    """`cache::SysCache::<SystemType>::restore_file` -> `cache::SysCache::restore_file`."""
    out = []
    depth = 0
    i = 0
    while i < len(path):
        c = path[i]
        if c == "<":
            # keep `<impl ...>` / `<T as Trait>` qualified-self forms, drop `::<...>` turbofish
            if depth == 0 and path[max(0, i - 2):i] == "::":
                depth = 1
                out = out[:-2]
                i += 1
                continue
            if depth > 0:
                depth += 1
                i += 1
                continue
        elif c == ">" and depth > 0:
            depth -= 1
            i += 1
            continue
        if depth == 0:
            out.append(c)
        i += 1
    return "".join(out)


class CallSite:
    __slots__ = ("fn", "bb", "callee", "path", "full", "resolved", "args", "dest", "target",
                 "span", "trait", "name", "is_local", "self_ty")

    def __init__(self, fn, bb, term):
        c = term["callee"]
        self.fn = fn
        self.bb = bb
        self.callee = c
        self.path = c["path"]
        self.full = c.get("full", c["path"])
        self.resolved = c.get("resolved")
        self.args = term["args"]
        self.dest = term["dest"]
        self.target = term["target"]
        self.span = term["span"]
        self.trait = c.get("trait")
        self.name = c.get("name")
        self.is_local = c.get("local", False)
        self.self_ty = (c.get("self_ty") or c.get("impl_self_ty") or {}).get("s")

    @property
    def line(self):
        return self.span["line"]

    @property
    def where(self):
        return "%s:%d" % (self.span["file"], self.span["line"])

    def __repr__(self):
        return "<call %s in %s bb%d @%s>" % (self.path, self.fn.id, self.bb, self.where)


class Fn:
    """One MIR body with its (non-cleanup) control-flow graph."""

    def __init__(self, body, prog):
        self.prog = prog
        self.body = body
        self.id = body["id"]
        self.kind = body["kind"]
        self.blocks = body["blocks"]
        self.nargs = body["arg_count"]
        self.live = [b["i"] for b in self.blocks if not b["cleanup"]]
        self.succ = defaultdict(list)   # bb -> [dst]
        self.pred = defaultdict(list)
        self.calls = []
        self.call_at = {}
        self.names = {}                 # local -> user name
        self.name_to_places = defaultdict(list)
        for d in body["debug"]:
            v = d["value"]
            if "local" in v:
                self.name_to_places[d["name"]].append(v)
                if not v["proj"] and d["name"] != "iter":
                    self.names.setdefault(v["local"], d["name"])
        for b in self.blocks:
            if b["cleanup"]:
                continue
            t = b["term"]
            k = t["k"]
            dsts = []
            if k == "goto":
                dsts = [t["target"]]
            elif k == "switch":
                dsts = [x[1] for x in t["targets"]] + [t["otherwise"]]
            elif k in ("drop", "assert"):
                dsts = [t["target"]]
            elif k == "call":
                if t["target"] is not None:
                    dsts = [t["target"]]
                cs = CallSite(self, b["i"], t)
                self.calls.append(cs)
                self.call_at[b["i"]] = cs
            elif k == "yield":
                dsts = [t["resume"]]
                if t.get("drop") is not None:
                    dsts.append(t["drop"])
            seen = set()
            for d in dsts:
                if d in seen or self._is_unreachable(d):
                    continue
                seen.add(d)
                self.succ[b["i"]].append(d)
                self.pred[d].append(b["i"])
        # definitions of each local
        self.defs = defaultdict(list)   # local -> [(kind, bb, idx|None, place, payload)]
        for b in self.blocks:
            if b["cleanup"]:
                continue
            for i, s in enumerate(b["stmts"]):
                if s["k"] == "assign":
                    self.defs[s["place"]["local"]].append(("assign", b["i"], i, s["place"], s["rv"]))
            t = b["term"]
            if t["k"] == "call":
                self.defs[t["dest"]["local"]].append(("call", b["i"], None, t["dest"], self.call_at[b["i"]]))
        self._label_cache = {}
        self._drop_flags = None
        self._origin_cache = {}
        self._var_cache = {}
        self._identity_cache = {}
        self.return_blocks = [b["i"] for b in self.blocks if not b["cleanup"] and b["term"]["k"] == "return"]

    def _is_unreachable(self, i):
        b = self.blocks[i]
        return b["term"]["k"] == "unreachable" and not b["stmts"]

    # ------------------------------------------------------------------ basics
    def block(self, i):
        return self.blocks[i]

    def local_ty(self, l):
        return self.body["locals"][l]["ty"]

    def is_user(self, l):
        return l in self.names

    def where(self, bb, idx=None):
        b = self.blocks[bb]
        sp = b["stmts"][idx]["span"] if idx is not None else b["term"]["span"]
        return "%s:%d" % (sp["file"], sp["line"])

    def line(self, bb, idx=None):
        b = self.blocks[bb]
        sp = b["stmts"][idx]["span"] if idx is not None else b["term"]["span"]
        return sp["line"]

    def calls_to(self, *paths, name=None, trait=None):
        out = []
        want = set(paths) | {erase_generics(p) for p in paths}
        for c in self.calls:
            if paths and (c.path in want or erase_generics(c.path) in want or (c.resolved in want if c.resolved else False)):
                out.append(c)
            elif name is not None and c.name == name and (trait is None or c.trait == trait):
                out.append(c)
        return out

    # ------------------------------------------------------------------ reachability
    def reach(self, starts, avoid_blocks=(), avoid_edges=()):
        """Blocks reachable from `starts` (inclusive) without entering avoid_blocks or
        taking avoid_edges.  A start that is itself avoided is not expanded."""
        avoid_blocks = set(avoid_blocks)
        avoid_edges = set(avoid_edges)
        seen = set()
        dq = deque()
        for s in starts:
            if s not in avoid_blocks and s not in seen:
                seen.add(s)
                dq.append(s)
        while dq:
            b = dq.popleft()
            for d in self.succ[b]:
                if (b, d) in avoid_edges or d in avoid_blocks or d in seen:
                    continue
                seen.add(d)
                dq.append(d)
        return seen

    def reach_after(self, bb, avoid_blocks=(), avoid_edges=()):
        """Blocks reachable strictly after the terminator of bb."""
        return self.reach([d for d in self.succ[bb] if (bb, d) not in set(avoid_edges)], avoid_blocks, avoid_edges)

    def dominated_by_edges(self, bb, edges):
        """True iff every path entry -> bb takes one of `edges`, or takes an edge that tests a
        bool flag whose value can only have been set after one of `edges` was taken
        (`let mut found = false; .. if c { found = true } .. if found { bb }`)."""
        if not edges:
            return False
        edges = set(edges)
        if bb not in self.reach([0], avoid_edges=edges):
            return True
        flags = self._flag_switches()
        if not flags:
            return False
        for _ in range(4):
            grew = False
            for l, (sets, switches) in flags.items():
                for val in (True, False):
                    blocks = sets[val]
                    add = set()
                    for info in switches:
                        add |= self._bool_edges(info, val)
                    if not blocks or add <= edges:
                        continue
                    if all(b not in self.reach([0], avoid_edges=edges) for b in blocks):
                        edges |= add
                        grew = True
            if not grew:
                break
            if bb not in self.reach([0], avoid_edges=edges):
                return True
        return False

    def _flag_switches(self):
        """bool locals that are only ever assigned constants (not drop flags, not parameters),
        with the blocks assigning true / false and the switches testing them."""
        if getattr(self, "_flags", None) is not None:
            return self._flags
        out = {}
        df = self.drop_flags()
        for l, defs in self.defs.items():
            if l == 0 or l in df or l <= self.body.get("arg_count", 0) or self.local_ty(l)["s"] != "bool":
                continue
            if not defs or not all(kind == "assign" and rv["k"] == "use" and rv["op"]["k"] == "const" and not place["proj"] and rv["op"].get("bits") in ("0", "1")
                                   for (kind, bb, idx, place, rv) in defs):
                continue
            sets = {True: set(), False: set()}
            for (kind, bb, idx, place, rv) in defs:
                # `x = false; x = true` in one block: the last one counts
                later = [d for d in defs if d[1] == bb and d[2] > idx]
                if not later:
                    sets[rv["op"]["bits"] == "1"].add(bb)
            sw = []
            for b2 in self.live:
                info = self.switch_info(b2)
                if info and info["kind"] in ("value", "local") and info.get("place", {}).get("local", info.get("local")) == l \
                        and not info.get("place", {}).get("proj"):
                    sw.append(info)
            if sw and (sets[True] or sets[False]):
                out[l] = (sets, sw)
        self._flags = out
        return out

    def dominated_by_blocks(self, bb, blocks):
        """True iff every path entry -> bb passes through one of `blocks` (bb itself counts)."""
        blocks = set(blocks)
        if bb in blocks:
            return True
        if not blocks:
            return False
        return bb not in self.reach([0], avoid_blocks=blocks)

    def must_pass(self, src_blocks, dst_blocks, through_blocks=(), through_edges=()):
        """True iff every path from after src to any dst passes through one of through_*."""
        r = self.reach(src_blocks, avoid_blocks=through_blocks, avoid_edges=through_edges)
        return not (set(dst_blocks) & r)

    def on_cycle(self, bb):
        return bb in self.reach_after(bb)

    def dominators(self):
        """dom[b] = set of blocks dominating b (iterative, over live non-cleanup blocks)."""
        if getattr(self, "_dom", None) is not None:
            return self._dom
        nodes = sorted(self.reach([0]))
        allset = set(nodes)
        dom = {n: set(allset) for n in nodes}
        dom[0] = {0}
        changed = True
        while changed:
            changed = False
            for n in nodes:
                if n == 0:
                    continue
                ps = [p for p in self.pred[n] if p in dom]
                new = set(allset)
                for p in ps:
                    new &= dom[p]
                new |= {n}
                if new != dom[n]:
                    dom[n] = new
                    changed = True
        self._dom = dom
        return dom

    def natural_loop(self, header):
        """Blocks of the natural loop(s) with this header."""
        dom = self.dominators()
        body = {header}
        tails = [t for t in self.pred[header] if t in dom and header in dom[t]]
        work = list(tails)
        while work:
            b = work.pop()
            if b in body:
                continue
            body.add(b)
            work.extend(p for p in self.pred[b] if p in dom)
        return body

    # ------------------------------------------------------------------ origins (A4)
    def origins_of_operand(self, op, suffix=()):
        if op["k"] in ("copy", "move"):
            return self.origins_of_place(op["place"], suffix)
        if op["k"] == "const":
            if "fn" in op:
                return {(("fn", op["fn"]["path"]),) + tuple(suffix)}
            key = op.get("text")
            return {(("const", key),) + tuple(suffix)}
        return {(("unknown", op.get("text", "")),) + tuple(suffix)}

    @staticmethod
    def _steps(proj):
        steps = []
        for e in proj:
            k = e["k"]
            if k == "deref":
                continue
            if k == "field":
                nm = e["name"] if e.get("name") is not None else e["i"]
                if isinstance(nm, str) and nm.isdigit():
                    nm = int(nm)
                steps.append(("field", nm))
            elif k == "downcast":
                steps.append(("variant", e.get("variant")))
            elif k == "index":
                steps.append(("index", e["local"]))
            elif k == "const_index":
                steps.append(("cindex", e["offset"]))
            elif k == "subslice":
                steps.append(("subslice", e["from"], e["to"], e["from_end"]))
            else:
                steps.append((k,))
        return tuple(steps)

    def origins_of_place(self, place, suffix=()):
        return self._origins(place["local"], self._steps(place["proj"]) + tuple(suffix), frozenset())

    def vars_of_operand(self, op):
        """Like origins, but stops at user-named variables: which variable(s) (with field
        steps) does this operand denote, looking through temporaries, borrows and
        pass-through calls.  Roots: ("var", local) | anything origins() can return."""
        old_cache, old_mode = self._origin_cache, getattr(self, "_var_mode", False)
        self._origin_cache = self._var_cache
        self._var_mode = True
        try:
            if op["k"] in ("copy", "move"):
                p = op["place"]
                return self._origins(p["local"], self._steps(p["proj"]), frozenset())
            return self.origins_of_operand(op)
        finally:
            self._origin_cache, self._var_mode = old_cache, old_mode

    def var_family(self, op):
        """The variables an operand denotes, plus every variable whose (whole) value was moved
        into one of them (`let content = match helper_result { Some(Ok(c)) => c, .. }` makes `c`,
        and the helper's own buffer, the same buffer)."""
        seen = set()
        work = list(self.vars_of_operand(op))
        while work:
            o = work.pop()
            if o in seen:
                continue
            seen.add(o)
            if o[0][0] == "var" and len(o) == 1:
                l = o[0][1]
                old_cache, old_mode = self._origin_cache, getattr(self, "_var_mode", False)
                self._origin_cache = {}
                self._var_mode = True
                self._var_expand = l
                try:
                    nxt = self._origins(l, (), frozenset())
                finally:
                    self._origin_cache, self._var_mode = old_cache, old_mode
                    self._var_expand = None
                for n in nxt:
                    if n not in seen and not (n[0][0] == "var" and n[0][1] == l):
                        work.append(n)
        return seen

    def vars_of_place(self, place):
        return self.vars_of_operand({"k": "copy", "place": place})

    def capture_slots(self):
        """What a closure captured, one entry per value: {"i": index of the captured operand
        in the closure aggregate, "steps": place steps below the closure environment,
        "ty": type}.  A captured struct that does not exist on the pinned tree (a bundle of
        values introduced by a refactoring) is expanded into its fields."""
        known = self.prog.known_adts()
        out = []

        def expand(i, steps, ty, depth):
            adt = ty.get("adt")
            a = self.prog.facts.adts.get(adt) if adt else None
            if a is not None and a.get("kind") == "struct" and adt not in known and depth < 2:
                for fl in a["variants"][0]["fields"]:
                    # (new structs are presented as tuples: fields go by position)
                    expand(i, steps + (("field", fl["i"]),), fl["ty"], depth + 1)
            else:
                out.append({"i": i, "steps": steps, "ty": ty})
        for i, (c, t) in enumerate(zip(self.body.get("captures", []), self.body.get("upvar_tys", []))):
            expand(i, (("field", c),), t, 0)
        return out

    def contents_of_vector(self, op):
        """Origins of the *elements* of a vector operand that this function created empty and
        filled with push (also through a second vector built from the first by map/collect);
        None if the vector is not built that way."""
        old_cache, old_flag = self._origin_cache, getattr(self, "content_flow", False)
        self._origin_cache = {}
        self.content_flow = True
        try:
            base = self._op_origins(op, (), frozenset())
            return self._vector_contents(base, (), frozenset())
        finally:
            self._origin_cache, self.content_flow = old_cache, old_flag

    def storage_of_place(self, place):
        """Origins of a place *as storage*: like origins_of_place, but a call that returns an
        owned value (clone, to_owned, a getter returning a copy) is not looked through -
        writing into its result does not write into what it was copied from."""
        old_cache, old_mode = self._origin_cache, getattr(self, "_identity_mode", False)
        self._origin_cache = self._identity_cache
        self._identity_mode = True
        try:
            return self._origins(place["local"], self._steps(place["proj"]), frozenset())
        finally:
            self._origin_cache, self._identity_mode = old_cache, old_mode

    def _origins(self, local, steps, visiting):
        key = (local, steps)
        if key in self._origin_cache:
            return self._origin_cache[key]
        if key in visiting:
            return set()
        visiting = visiting | {key}
        out = set()
        if getattr(self, "_var_mode", False) and local in self.names and local != getattr(self, "_var_expand", None) \
                and not self.local_ty(local).get("closure"):
            # (a variable that holds a closure is looked through: what it captured is the data)
            return {(("var", local),) + steps}
        if 1 <= local <= self.nargs:
            out.add((("param", local),) + steps)
        for (kind, bb, idx, place, payload) in self.defs.get(local, ()):
            lhs_steps = self._steps(place["proj"])
            rest = steps
            if lhs_steps:
                # partial definition `_l.f = ...`
                # (field writes do not define the whole value; stores through a reference
                #  define only the exact place written)
                if steps[:len(lhs_steps)] == lhs_steps:
                    rest = steps[len(lhs_steps):]
                else:
                    continue
            if kind == "call":
                out |= self._call_origins(payload, rest, visiting)
            else:
                out |= self._rv_origins(payload, rest, bb, idx, visiting)
        if not out and not (1 <= local <= self.nargs) and not (steps and steps[0][0] == "variant" and self.defs.get(local)):
            # (a local whose every definition is another variant than the one asked for has no
            #  such value: `(x as Some).0` where x is only ever None)
            out.add((("undef", local),) + steps)
        if len(visiting) == 1:
            self._origin_cache[key] = out
        return out

    def _op_origins(self, op, steps, visiting):
        if op["k"] in ("copy", "move"):
            p = op["place"]
            return self._origins(p["local"], self._steps(p["proj"]) + steps, visiting)
        if op["k"] == "const":
            if "fn" in op:
                return {(("fn", op["fn"]["path"]),) + steps}
            if "promoted" in op or "item" in op:
                return {(("const", op.get("text")), ) + steps}
            return {(("const", op.get("text")),) + steps}
        return {(("unknown", op.get("text", "")),) + steps}

    def _rv_origins(self, rv, steps, bb, idx, visiting):
        k = rv["k"]
        if k == "use":
            return self._op_origins(rv["op"], steps, visiting)
        if k in ("ref", "raw_ptr"):
            p = rv["place"]
            return self._origins(p["local"], self._steps(p["proj"]) + steps, visiting)
        if k == "cast":
            return self._op_origins(rv["op"], steps, visiting)
        if k == "aggregate":
            kk = rv["kind"]
            st = steps
            if kk["k"] == "adt" and kk.get("adt") == "std::borrow::Cow" and rv["ops"]:
                # `Cow::Borrowed(x)` / `Cow::Owned(x)` is x for every question asked here
                if st and st[0][0] == "variant":
                    if st[0][1] != kk["variant"]:
                        return set()
                    st = st[1:]
                    if st and st[0] == ("field", 0):
                        st = st[1:]
                return self._op_origins(rv["ops"][0], st, visiting)
            if kk["k"] == "adt":
                # optional leading variant step
                if st and st[0][0] == "variant":
                    if st[0][1] != kk["variant"]:
                        return set()
                    st = st[1:]
                if st and st[0][0] == "field":
                    f = st[0][1]
                    names = [int(n) if n.isdigit() else n for n in kk.get("fields", [])]
                    i = names.index(f) if f in names else (f if isinstance(f, int) else None)
                    if i is not None and i < len(rv["ops"]):
                        return self._op_origins(rv["ops"][i], st[1:], visiting)
                return {(("agg", self.id, bb, idx, kk["adt"] + "::" + kk["variant"]),) + st}
            if kk["k"] in ("tuple", "closure", "coroutine", "array"):
                if st and st[0][0] == "field" and isinstance(st[0][1], int) and st[0][1] < len(rv["ops"]):
                    return self._op_origins(rv["ops"][st[0][1]], st[1:], visiting)
                if st and st[0][0] == "field" and kk["k"] in ("closure", "coroutine"):
                    # captured variable addressed by name
                    cb = self.prog.fns.get(kk["body"])
                    caps = cb.body.get("captures", []) if cb is not None else self.prog.facts.raw.get("closure_captures", {}).get(kk["body"], [])
                    if st[0][1] in caps:
                        return self._op_origins(rv["ops"][caps.index(st[0][1])], st[1:], visiting)
                return {(("agg", self.id, bb, idx, kk["k"]),) + st}
            return {(("agg", self.id, bb, idx, kk["k"]),) + steps}
        if k == "discriminant":
            return {(("discr", self.id, bb, idx),) + steps}
        if k in ("binop", "unop"):
            return {((k, self.id, bb, idx, rv["op"]),) + steps}
        if k == "repeat":
            return {(("repeat", self.id, bb, idx),) + steps}
        return {(("other", self.id, bb, idx),) + steps}

    def _call_origins(self, cs, steps, visiting):
        p = cs.path
        if p == "std::ops::Try::branch" and cs.args and len(steps) >= 2 and steps[0] == ("variant", "Continue") and steps[1] == ("field", 0):
            # `x?`: the Continue payload is the Ok / Some payload of x
            aty = ""
            if cs.args[0]["k"] in ("copy", "move"):
                aty = self.local_ty(cs.args[0]["place"]["local"])["s"]
            v = "Some" if aty.startswith("std::option::Option") else "Ok"
            return self._op_origins(cs.args[0], (("variant", v), ("field", 0)) + tuple(steps[2:]), visiting)
        if p == "std::ops::FromResidual::from_residual" and steps and steps[0] in (("variant", "Ok"), ("variant", "Some")):
            return set()        # a residual is never the success variant
        if p == "std::ops::Try::branch" and cs.args and len(steps) >= 4 and steps[:4] == (("variant", "Break"), ("field", 0), ("variant", "Err"), ("field", 0)):
            # the residual of `x?` carries x's Err payload
            return self._op_origins(cs.args[0], (("variant", "Err"), ("field", 0)) + tuple(steps[4:]), visiting)
        if getattr(self, "_identity_mode", False) and not cs.dest["proj"] and not self.local_ty(cs.dest["local"])["s"].startswith(("&", "*")) \
                and (cs.name in ("clone", "to_owned", "to_vec", "to_string", "cloned", "copied", "clone_from") or
                     (p not in PASS_THROUGH and self.prog.return_summary(cs) is not None)):
            # a copy (or a getter handing out an owned copy) is new storage
            return {(("call", self.id, cs.bb, cs.path),) + steps}
        if cs.args and len(steps) >= 2 and steps[1] == ("field", 0):
            # conversions between Result and Option keep the payload
            conv = None
            if p.startswith("std::result::Result::") and cs.name == "ok" and steps[0] == ("variant", "Some"):
                conv = (0, ("variant", "Ok"))
            elif p.startswith("std::result::Result::") and cs.name == "err" and steps[0] == ("variant", "Some"):
                conv = (0, ("variant", "Err"))
            elif p.startswith("std::option::Option::") and cs.name == "ok_or" and steps[0] == ("variant", "Ok"):
                conv = (0, ("variant", "Some"))
            elif p.startswith("std::option::Option::") and cs.name == "ok_or" and steps[0] == ("variant", "Err") and len(cs.args) > 1:
                return self._op_origins(cs.args[1], tuple(steps[2:]), visiting)
            if conv is not None:
                return self._op_origins(cs.args[conv[0]], (conv[1], ("field", 0)) + tuple(steps[2:]), visiting)
        if cs.name in ("unwrap", "expect", "unwrap_unchecked") and p.startswith(("std::option::Option::", "std::result::Result::")) and cs.args \
                and not getattr(self, "_identity_mode", False):
            # the payload (or no value at all)
            v = "Some" if p.startswith("std::option::Option::") else "Ok"
            return self._op_origins(cs.args[0], (("variant", v), ("field", 0)) + tuple(steps), visiting)
        if cs.name == "or" and p.startswith(("std::option::Option::", "std::result::Result::")) and len(cs.args) == 2:
            # `a.or(b)`: one of the two values, unchanged
            return self._op_origins(cs.args[0], steps, visiting) | self._op_origins(cs.args[1], steps, visiting)
        if cs.name in ("unwrap_or", "unwrap_or_default") and p.startswith(("std::option::Option::", "std::result::Result::")) and cs.args:
            # the payload, or the fallback
            v = "Some" if p.startswith("std::option::Option::") else "Ok"
            out = self._op_origins(cs.args[0], (("variant", v), ("field", 0)) + tuple(steps), visiting)
            if len(cs.args) > 1:
                out = out | self._op_origins(cs.args[1], steps, visiting)
            return out
        if p in PASS_THROUGH and cs.args:
            return self._op_origins(cs.args[0], steps, visiting)
        if cs.name == "map" and p.startswith(("std::option::Option::", "std::result::Result::")) and len(cs.args) == 2 \
                and cs.args[1]["k"] == "const" and "std::borrow::Cow" in str((cs.args[1].get("fn") or {}).get("path", "")) + str(cs.args[1].get("text", "")):
            # `opt.map(Cow::Owned)`: the same payload in a transparent wrapper
            return self._op_origins(cs.args[0], steps, visiting)
        if "std::borrow::Cow" in p and cs.name in ("into_owned", "to_mut", "as_ref", "deref") and cs.args:
            return self._op_origins(cs.args[0], steps, visiting)
        if p in ITER_SOURCES and cs.args:
            base = self._op_origins(cs.args[0], (), visiting)
            return {o + (("iter", ITER_SOURCES[p]),) + steps for o in base}
        if p in ITER_COMPLETE and cs.args:
            base = self._op_origins(cs.args[0], (), visiting)
            return {o + (("adapt", ITER_COMPLETE[p]),) + steps for o in base}
        if p in ITER_TRUNCATING and cs.args:
            base = self._op_origins(cs.args[0], (), visiting)
            return {o + (("truncate", p.split("::")[-1]),) + steps for o in base}
        if p in NEXT_CALLS and cs.args:
            base = self._op_origins(cs.args[0], (), visiting)
            if getattr(self, "content_flow", False) and len(steps) >= 2 and steps[0] == ("variant", "Some") and steps[1] == ("field", 0):
                vals = self._vector_contents(base, tuple(steps[2:]), visiting)
                if vals is not None:
                    return vals
            if base and len(steps) >= 2 and steps[0] == ("variant", "Some") and steps[1] == ("field", 0) \
                    and all(len(o) == 1 and o[0][0] == "call" and o[0][1] == self.id and o[0][3] == "std::iter::once" for o in base):
                # the one element of `std::iter::once(x)` is x
                out = set()
                for o in base:
                    out |= self._op_origins(self.call_at[o[0][2]].args[0], tuple(steps[2:]), visiting)
                return out
            return {o + (("next", self.id, cs.bb),) + steps for o in base}
        # local getter summaries
        summ = self.prog.return_summary(cs)
        if summ is not None:
            out = set()
            for (argi, extra) in summ:
                if argi < len(cs.args):
                    out |= self._op_origins(cs.args[argi], tuple(extra) + steps, visiting)
            if out:
                return out
        return {(("call", self.id, cs.bb, cs.path),) + steps}

    def _vector_contents(self, base, rest, visiting):
        """An element taken out of a vector that this function created empty and filled only
        with `push` is one of the pushed values (a two-stage pipeline - collect results, then
        walk them - reads like the single loop it replaces).  None if that is not the case."""
        if not base:
            return None
        creators = set()
        for o in base:
            if not (o[0][0] == "call" and o[0][1] == self.id and erase_generics(o[0][3]) in ("std::vec::Vec::new", "std::vec::Vec::with_capacity")):
                return None
            if not all(st[0] == "iter" and st[1] in ("into_iter", "iter", "drain", "iter_mut") for st in o[1:]):
                return None
            creators.add(o[0])
        if getattr(self, "_identity_mode", False):
            return None
        out = set()
        n_push = 0
        for c in self.calls:
            if not c.args:
                continue
            nm = c.name
            if nm not in ("push", "insert", "extend", "append", "extend_from_slice", "resize", "push_str"):
                continue
            if not erase_generics(c.path).startswith("std::vec::Vec::"):
                continue
            tgt = self._op_origins(c.args[0], (), visiting)
            if not any(t[0] in creators for t in tgt):
                continue
            if nm != "push" or not all(len(t) == 1 and t[0] in creators for t in tgt):
                return None
            n_push += 1
            out |= self._op_origins(c.args[1], rest, visiting)
        if not n_push:
            return None
        return out

    # ------------------------------------------------------------------ edge labels (A2)
    def _single_def(self, local, bb):
        """The definition of `local` that reaches the terminator of bb, looking only in bb
        and its unique-predecessor chain."""
        cur = bb
        seen = set()
        while cur is not None and cur not in seen:
            seen.add(cur)
            b = self.blocks[cur]
            for i in range(len(b["stmts"]) - 1, -1, -1):
                s = b["stmts"][i]
                if s["k"] == "assign" and s["place"]["local"] == local and not s["place"]["proj"]:
                    return ("assign", cur, i, s["rv"])
            preds = self.pred[cur]
            if len(preds) != 1:
                # a call in each predecessor may define it
                cands = [p for p in preds if p in self.call_at and self.call_at[p].dest["local"] == local and not self.call_at[p].dest["proj"]]
                if len(cands) == 1 and len(preds) == 1:
                    return ("call", cands[0], None, self.call_at[cands[0]])
                return None
            p = preds[0]
            if p in self.call_at and self.call_at[p].dest["local"] == local and not self.call_at[p].dest["proj"]:
                return ("call", p, None, self.call_at[p])
            cur = p
        return None

    def switch_info(self, bb):
        """Describe what the switch terminating bb tests.  Returns a dict or None."""
        if bb in self._label_cache:
            return self._label_cache[bb]
        t = self.blocks[bb]["term"]
        if t["k"] != "switch":
            return None
        info = {"bb": bb, "targets": [(int(v), d) for v, d in t["targets"]], "otherwise": t["otherwise"],
                "discr_ty": t["discr_ty"]}
        d = t["discr"]
        info["kind"] = "unknown"
        if d["k"] in ("copy", "move") and not d["place"]["proj"]:
            neg = False
            local = d["place"]["local"]
            df = self._single_def(local, bb)
            # look through `_a = copy _b` and Not(_b)
            hops = 0
            while df is not None and df[0] == "assign" and hops < 6:
                rv = df[3]
                if rv["k"] == "use" and rv["op"]["k"] in ("copy", "move") and not rv["op"]["place"]["proj"] and t["discr_ty"] == "bool":
                    src_l = rv["op"]["place"]["local"]
                    nxt = self._single_def(src_l, df[1])
                    if nxt is None:
                        break
                    if self.is_user(src_l):
                        # `let differs = a != b; if differs` tests the comparison; a flag that is
                        # assigned constants stays a flag
                        if not (len(self.defs.get(src_l, ())) == 1 and
                                ((nxt[0] == "assign" and nxt[3]["k"] in ("binop", "unop")) or nxt[0] == "call")):
                            break
                    df = nxt
                    hops += 1
                    continue
                if rv["k"] == "unop" and rv["op"] == "Not" and rv["a"]["k"] in ("copy", "move") and not rv["a"]["place"]["proj"]:
                    nxt = self._single_def(rv["a"]["place"]["local"], df[1])
                    if nxt is None:
                        break
                    neg = not neg
                    df = nxt
                    hops += 1
                    continue
                break
            info["neg"] = neg
            if df is None:
                info["kind"] = "local"
                info["local"] = local
            elif df[0] == "assign":
                rv = df[3]
                if rv["k"] == "discriminant":
                    info["kind"] = "variant"
                    info["place"] = rv["place"]
                    info["adt"] = rv.get("adt")
                    info["origins"] = self.origins_of_place(rv["place"])
                elif rv["k"] == "binop":
                    info["kind"] = "cmp"
                    info["op"] = rv["op"]
                    info["a"] = rv["a"]
                    info["b"] = rv["b"]
                    info["def"] = (df[1], df[2])
                elif rv["k"] == "use" and rv["op"]["k"] in ("copy", "move"):
                    info["kind"] = "value"
                    info["place"] = rv["op"]["place"]
                    info["origins"] = self.origins_of_place(rv["op"]["place"])
                else:
                    info["kind"] = "expr"
                    info["rv"] = rv
            else:
                info["kind"] = "call"
                info["call"] = df[3]
        elif d["k"] in ("copy", "move"):
            info["kind"] = "value"
            info["place"] = d["place"]
            info["origins"] = self.origins_of_place(d["place"])
        self._label_cache[bb] = info
        return info

    def drop_flags(self):
        """Locals that drop elaboration introduced: unnamed bools that are only ever assigned
        constants and only ever read by `switchInt(copy _f)` (a value of the program is moved
        into its switch, stored, passed or returned)."""
        if self._drop_flags is not None:
            return self._drop_flags
        cand = set()
        for l, defs in self.defs.items():
            if l == 0 or l in self.names or l <= self.body.get("arg_count", 0):
                continue
            if self.local_ty(l)["s"] != "bool":
                continue
            if all(kind == "assign" and rv["k"] == "use" and rv["op"]["k"] == "const" and not place["proj"] for (kind, bb, idx, place, rv) in defs):
                cand.add(l)

        def walk(x, skip_place):
            if isinstance(x, dict):
                if x.get("k") in ("copy", "move") and isinstance(x.get("place"), dict):
                    cand.discard(x["place"]["local"])
                    for pr in x["place"].get("proj", []):
                        walk(pr, False)
                    return
                for k, v in x.items():
                    if k == "place" and skip_place:
                        # a place written to: index projections are reads
                        for pr in v.get("proj", []) if isinstance(v, dict) else []:
                            walk(pr, False)
                        continue
                    walk(v, False)
            elif isinstance(x, list):
                for v in x:
                    walk(v, False)
        for b in self.blocks:
            for st in b["stmts"]:
                if st["k"] == "assign":
                    walk(st["rv"], False)
                    # `_x = &_f` / uses inside rvalues that name a place directly
                    rv = st["rv"]
                    for key in ("place",):
                        if isinstance(rv.get(key), dict):
                            cand.discard(rv[key]["local"])
            t = b["term"]
            if t["k"] == "switch":
                d = t["discr"]
                if d["k"] == "move" and not d["place"]["proj"]:
                    cand.discard(d["place"]["local"])
                elif d["k"] != "copy":
                    walk(d, False)
            else:
                walk({k: v for k, v in t.items() if k not in ("span",)}, False)
        self._drop_flags = cand
        return cand

    def _drop_only_block(self, i):
        b = self.blocks[i]
        if b.get("tramp") is not None:
            return self._drop_only_block(b["tramp"])
        for st in b["stmts"]:
            if st["k"] != "assign":
                return False
            rv = st["rv"]
            if rv["k"] == "discriminant":
                continue
            if rv["k"] == "use" and rv["op"]["k"] == "const" and rv["op"]["ty"]["s"] == "bool" \
                    and not st["place"]["proj"] and st["place"]["local"] in self.drop_flags():
                continue
            return False
        return b["term"]["k"] in ("drop", "goto", "switch", "return")

    def is_drop_switch(self, bb):
        """Switches that drop elaboration inserts at scope ends (they re-test a discriminant
        only to decide which fields still need dropping)."""
        t = self.blocks[bb]["term"]
        if t["k"] != "switch":
            return False
        return all(self._drop_only_block(d) for d in self.succ[bb]) and bool(self.succ[bb])

    def variant_names(self, adt):
        a = self.prog.facts.adts.get(adt)
        if a:
            return {v["idx"]: v["name"] for v in a["variants"]}
        std = {
            "std::result::Result": {0: "Ok", 1: "Err"},
            "std::option::Option": {0: "None", 1: "Some"},
            "std::ops::ControlFlow": {0: "Continue", 1: "Break"},
        }
        return std.get(adt, {})

    def edges_variant(self, pred):
        """All edges (src,dst) of switches on an enum discriminant for which
        pred(info, variant_name_or_None, is_otherwise, excluded_names) holds."""
        out = set()
        for bb in self.live:
            info = self.switch_info(bb)
            if not info or info["kind"] != "variant" or self.is_drop_switch(bb):
                continue
            names = self.variant_names(info.get("adt"))
            listed = []
            for v, d in info["targets"]:
                nm = names.get(v, str(v))
                listed.append(nm)
                if pred(info, nm, False, None):
                    out.add((bb, d))
            rest = [n for n in names.values() if n not in listed]
            if pred(info, None, True, rest):
                out.add((bb, info["otherwise"]))
        return out

    def edges_of_call_variant(self, cs, variant, path=()):
        """Edges taken exactly when the result of call `cs` (projected by `path`) is `variant`.
        Includes the `?` operator on the result."""
        want = self._call_origins(cs, tuple(path), frozenset())
        return self.edges_of_value_variant(want, variant)

    _IS_VARIANT = {"is_ok": ("std::result::Result", "Ok", "Err"), "is_err": ("std::result::Result", "Err", "Ok"),
                   "is_some": ("std::option::Option", "Some", "None"), "is_none": ("std::option::Option", "None", "Some")}

    _CONVERSIONS = {"ok": {"Ok": "Some", "Err": "None"}, "err": {"Err": "Some", "Ok": "None"},
                    "ok_or": {"Some": "Ok", "None": "Err"}, "ok_or_else": {"Some": "Ok", "None": "Err"}}

    def edges_of_value_variant(self, want_origins, variant, _depth=0):
        out = set()
        if _depth < 2 and want_origins:
            # `x.ok()?`, `x.err()`, `o.ok_or(e)?`: the converted value is tested instead of x
            for cs in self.calls:
                m = self._CONVERSIONS.get(cs.name)
                if m and variant in m and cs.args and cs.path.startswith(("std::result::Result::", "std::option::Option::")) \
                        and cs.bb in self.live and self._op_origins(cs.args[0], (), frozenset()) == want_origins:
                    out |= self.edges_of_value_variant({(("call", self.id, cs.bb, cs.path),)}, m[variant], _depth + 1)
        for bb in self.live:
            info = self.switch_info(bb)
            if info and info["kind"] == "call":
                # `if x.is_ok()` / `if x.is_err()` ...
                cs = info["call"]
                iv = self._IS_VARIANT.get(cs.name)
                if iv and cs.args and cs.path.startswith(("std::result::Result::", "std::option::Option::")) \
                        and self._op_origins(cs.args[0], (), frozenset()) == want_origins:
                    if variant == iv[1]:
                        out |= self._bool_edges(info, True)
                    elif variant == iv[2]:
                        out |= self._bool_edges(info, False)
                continue
            if not info or info["kind"] != "variant" or self.is_drop_switch(bb):
                continue
            org = info["origins"]
            vmap = None
            if org == want_origins:
                vmap = lambda n: n
            elif want_origins and want_origins < org and all(
                    o[0][0] == "agg" and len(o) == 1 and o[0][4].split("::")[-1] != variant and o[0][4].rsplit("::", 1)[0] in ("std::option::Option", "std::result::Result")
                    for o in org - want_origins):
                # the value is this one or a literal of another variant (`x.and_then(..)`
                # spelled out: `None` when there was nothing to ask): the `variant` edge still
                # means "this value, and it is `variant`"
                vmap = lambda n: n if n == variant else None
            else:
                # `?`: discriminant of ControlFlow returned by Try::branch(x)
                if len(org) == 1:
                    o = next(iter(org))
                    if o[0][0] == "call" and o[0][3] == "std::ops::Try::branch" and len(o) == 1:
                        bcs = self.call_at[o[0][2]]
                        if self._op_origins(bcs.args[0], (), frozenset()) == want_origins:
                            ty = self.local_ty(bcs.args[0]["place"]["local"])["s"] if bcs.args[0]["k"] != "const" else ""
                            if ty.startswith("std::option::Option"):
                                vmap = lambda n: {"Continue": "Some", "Break": "None"}.get(n)
                            else:
                                vmap = lambda n: {"Continue": "Ok", "Break": "Err"}.get(n)
            if vmap is None:
                continue
            names = self.variant_names(info.get("adt"))
            listed = set()
            for v, d in info["targets"]:
                nm = vmap(names.get(v, str(v)))
                listed.add(nm)
                if nm == variant:
                    out.add((bb, d))
            rest = {vmap(n) for n in names.values()} - listed
            if rest == {variant}:
                out.add((bb, info["otherwise"]))
        return out

    def nonempty_edges(self, is_coll, nonempty=True):
        """Edges on which a collection (chosen by is_coll(operand of len()/is_empty())) is known
        to be non-empty (or empty): `len() > 0`, `len() != 0`, `len() >= 1`, `0 < len()`,
        `len() == 0`, `!is_empty()`, `is_empty()`."""
        def len_of(op):
            for o in self.origins_of_operand(op):
                if o[0][0] == "call" and len(o) == 1 and o[0][3].split("::")[-1] == "len":
                    c = self.call_at[o[0][2]]
                    if c.args and is_coll(c.args[0]):
                        return True
            return False

        def const(op, v):
            return op["k"] == "const" and op.get("bits") == str(v)

        def desc_nonempty(d):
            """+1: comparison true <=> nonempty; -1: true <=> empty; 0: not about it"""
            a, b, op = d["a"], d["b"], d["op"]
            if len_of(a) and const(b, 0):
                return {"Gt": 1, "Ne": 1, "Eq": -1, "Le": -1}.get(op, 0)
            if len_of(b) and const(a, 0):
                return {"Lt": 1, "Ne": 1, "Eq": -1, "Ge": -1}.get(op, 0)
            if len_of(a) and const(b, 1):
                return {"Ge": 1, "Lt": -1}.get(op, 0)
            if len_of(b) and const(a, 1):
                return {"Le": 1, "Gt": -1}.get(op, 0)
            return 0
        want = 1 if nonempty else -1
        out = self.cmp_edges(lambda d: desc_nonempty(d) == want, True) | self.cmp_edges(lambda d: desc_nonempty(d) == -want, False)
        for c in self.calls:
            if c.name == "is_empty" and c.args and is_coll(c.args[0]):
                out |= self.bool_edges_of_call(c, not nonempty)
            elif c.name in ("first", "last", "first_mut", "last_mut", "split_first", "split_last") and len(c.args) == 1 and is_coll(c.args[0]) \
                    and "slice" in c.path:
                # `match xs.first() { None => .., Some(x) => .. }`
                out |= self.edges_of_call_variant(c, "Some" if nonempty else "None")
        return out

    def bool_edges_of_call(self, cs, truth):
        """Edges taken exactly when bool-returning call `cs` returned `truth`."""
        out = set()
        for bb in self.live:
            info = self.switch_info(bb)
            if not info or info["kind"] != "call" or info["call"] is not cs:
                continue
            out |= self._bool_edges(info, truth)
        return out

    def _bool_edges(self, info, truth):
        # switch(bool) [0: bbF, otherwise: bbT]
        want = truth != info.get("neg", False)
        out = set()
        zero = [d for v, d in info["targets"] if v == 0]
        if want:
            out.add((info["bb"], info["otherwise"]))
        else:
            for d in zero:
                out.add((info["bb"], d))
        return out

    def cmp_edges(self, pred, truth=True):
        """Edges taken when a comparison binop/eq-call satisfying pred(desc) is `truth`.
        desc = dict(op=Eq|Ne|Lt|Le|Gt|Ge, a=operand, b=operand, fn=self, bb=switch bb)."""
        out = set()
        for bb in self.live:
            info = self.switch_info(bb)
            if not info:
                continue
            desc = self.cmp_desc(info)
            if desc is None or not pred(desc):
                continue
            out |= self._bool_edges(info, truth)
        return out

    def cmp_desc(self, info):
        if info["kind"] == "cmp" and info["op"] in ("Eq", "Ne", "Lt", "Le", "Gt", "Ge"):
            return {"op": info["op"], "a": info["a"], "b": info["b"], "fn": self, "bb": info["bb"]}
        if info["kind"] == "call":
            cs = info["call"]
            m = {"std::cmp::PartialEq::eq": "Eq", "std::cmp::PartialEq::ne": "Ne",
                 "std::cmp::PartialOrd::lt": "Lt", "std::cmp::PartialOrd::le": "Le",
                 "std::cmp::PartialOrd::gt": "Gt", "std::cmp::PartialOrd::ge": "Ge"}
            if cs.path in m and len(cs.args) == 2:
                return {"op": m[cs.path], "a": cs.args[0], "b": cs.args[1], "fn": self, "bb": info["bb"], "call": cs}
        return None

    # ------------------------------------------------------------------ loops (A7)
    def loops(self):
        """for-loops: list of dicts {header, next_call, some_edge, none_edge, body(set), iter_origins}."""
        out = []
        for cs in self.calls:
            if cs.path not in NEXT_CALLS or cs.target is None:
                continue
            if not self.on_cycle(cs.bb):
                continue
            some = self.edges_of_call_variant(cs, "Some")
            none = self.edges_of_call_variant(cs, "None")
            if len(some) != 1 or len(none) != 1:
                # a later re-test of the same Option (left over from drop elaboration after a
                # `break`) is not the loop's test: the test is the switch right after `next`
                some = {e2 for e2 in some if e2[0] == cs.target}
                none = {e2 for e2 in none if e2[0] == cs.target}
            if len(some) != 1 or len(none) != 1:
                continue
            some_e = next(iter(some))
            none_e = next(iter(none))
            # natural loop body: blocks that can reach the header again, starting from the Some target
            body = self.natural_loop(cs.bb)
            it = self._op_origins(cs.args[0], (), frozenset())
            out.append({"header": cs.bb, "next": cs, "some": some_e, "none": none_e, "body": body,
                        "iter": it, "elem": self._call_origins(cs, (("variant", "Some"), ("field", 0)), frozenset())})
        return out

    def loop_exits(self, lp):
        """Edges leaving the loop other than its exhaustion - not counting those that only lead to
        a panic (a failed assertion leaves by unwinding, it does not cut the traversal short)."""
        ex = []
        for b in lp["body"]:
            for d in self.succ[b]:
                if d not in lp["body"] and (b, d) != lp["none"]:
                    if not any(x in self.return_blocks for x in self.reach([d])):
                        continue
                    ex.append((b, d))
        return ex

    def every_iteration_calls(self, lp, call_blocks):
        """True iff every path Some-edge -> back to header passes through a block in call_blocks."""
        r = self.reach([lp["some"][1]], avoid_blocks=set(call_blocks))
        return lp["header"] not in r

    # ------------------------------------------------------------------ forward taint
    def tainted_locals(self, seed_pred):
        """Flow-insensitive forward slice: locals that may hold data derived from any local
        satisfying seed_pred(local).  Stores through a pointer taint the pointer's sources."""
        def locals_of_operand(op):
            return [op["place"]["local"]] if op["k"] in ("copy", "move") else []

        def locals_of_rv(rv):
            k = rv["k"]
            if k in ("use", "cast", "repeat"):
                return locals_of_operand(rv["op"])
            if k in ("ref", "raw_ptr", "discriminant"):
                return [rv["place"]["local"]]
            if k == "binop":
                return locals_of_operand(rv["a"]) + locals_of_operand(rv["b"])
            if k == "unop":
                return locals_of_operand(rv["a"])
            if k == "aggregate":
                out = []
                for o in rv["ops"]:
                    out += locals_of_operand(o)
                return out
            return []
        T = {l for l in range(len(self.body["locals"])) if seed_pred(l)}
        changed = True
        while changed:
            changed = False
            for l, defs in self.defs.items():
                for (kind, bb, idx, place, payload) in defs:
                    src = []
                    if kind == "assign":
                        src = locals_of_rv(payload)
                    else:
                        for a in payload.args:
                            src += locals_of_operand(a)
                    if any(x in T for x in src):
                        targets = [l]
                        if any(e["k"] == "deref" for e in place["proj"]):
                            # store through a pointer: also taint what the pointer was made from
                            work = [l]
                            seen = set()
                            while work:
                                q = work.pop()
                                if q in seen:
                                    continue
                                seen.add(q)
                                targets.append(q)
                                for (k2, b2, i2, p2, pl2) in self.defs.get(q, ()):
                                    if k2 == "assign":
                                        work += locals_of_rv(pl2)
                        for t in targets:
                            if t not in T:
                                T.add(t)
                                changed = True
        return T

    # ------------------------------------------------------------------ return values
    def return_value_blocks(self):
        """[(bb, idx, rv)] of assignments to _0 (whole)."""
        out = []
        for (kind, bb, idx, place, payload) in self.defs.get(0, ()):
            out.append((kind, bb, idx, place, payload))
        return out

    def constructs(self, adt, variant=None):
        """Sites that build an aggregate of adt[::variant]: [(bb, idx, rv, place)]."""
        out = []
        for b in self.blocks:
            if b["cleanup"]:
                continue
            for i, s in enumerate(b["stmts"]):
                if s["k"] == "assign" and s["rv"]["k"] == "aggregate":
                    kk = s["rv"]["kind"]
                    if kk["k"] == "adt" and kk["adt"] == adt and (variant is None or kk["variant"] == variant):
                        out.append((b["i"], i, s["rv"], s["place"]))
        return out


class Program:
    _known_adts = None

    def known_adts(self):
        if Program._known_adts is None:
            import json as _json
            import os as _os
            here = _os.path.dirname(_os.path.dirname(_os.path.abspath(__file__)))
            with open(_os.path.join(here, "known_functions.json")) as f:
                Program._known_adts = set(_json.load(f).get("adts", []))
        return Program._known_adts

    def __init__(self, facts):
        self.facts = facts
        self.fns = {}
        for bid, b in facts.bodies.items():
            self.fns[bid] = Fn(b, self)
        self._summ = {}
        self._summ_busy = set()
        # call graph
        self.callers = defaultdict(list)     # callee fn id -> [CallSite]
        self.closure_sites = {}              # closure body id -> (parent Fn, bb, idx, rv)
        for fn in self.fns.values():
            for cs in fn.calls:
                for tgt in self.local_targets(cs):
                    self.callers[tgt].append(cs)
            for b in fn.blocks:
                if b["cleanup"]:
                    continue
                for i, s in enumerate(b["stmts"]):
                    if s["k"] == "assign" and s["rv"]["k"] == "aggregate" and s["rv"]["kind"]["k"] in ("closure", "coroutine", "coroutine_closure"):
                        self.closure_sites[s["rv"]["kind"]["body"]] = (fn, b["i"], i, s["rv"])

    def fn(self, fid):
        f = self.fns.get(fid)
        if f is None:
            raise AnalysisError("anchor missing: function %s" % fid)
        return f

    def find_fns(self, pred):
        return [f for f in self.fns.values() if pred(f)]

    def local_targets(self, cs):
        """Ids of local bodies a call site may enter."""
        out = []
        for p in (cs.resolved, cs.path):
            if p and p in self.fns:
                out.append(p)
                break
        if cs.callee.get("kind") == "closure" and cs.path in self.fns:
            out.append(cs.path)
        return out

    def callees(self, fn):
        """Local functions/closures `fn` may enter: direct calls plus closures it creates."""
        out = set()
        for cs in fn.calls:
            out.update(self.local_targets(cs))
        for cid, (pf, bb, idx, rv) in self.closure_sites.items():
            if pf is fn:
                out.add(cid)
        return out

    def reachable_fns(self, roots):
        seen = set()
        dq = deque(roots)
        while dq:
            f = dq.popleft()
            if f in seen or f not in self.fns:
                continue
            seen.add(f)
            dq.extend(self.callees(self.fns[f]))
        return seen

    def all_calls(self, fn_ids=None):
        for fid, fn in self.fns.items():
            if fn_ids is not None and fid not in fn_ids:
                continue
            for cs in fn.calls:
                yield cs

    # summaries: which (arg index, extra steps) the return value of a small local fn equals
    def return_summary(self, cs):
        tg = self.local_targets(cs)
        if len(tg) != 1:
            return None
        fid = tg[0]
        if fid in self._summ:
            return self._summ[fid]
        if fid in self._summ_busy:
            return None
        self._summ_busy.add(fid)
        fn = self.fns[fid]
        res = None
        try:
            if len(fn.live) <= 12 and fn.kind != "closure":
                org = fn._origins(0, (), frozenset())
                ok = True
                out = []
                for o in org:
                    if o[0][0] == "param":
                        out.append((o[0][1] - 1, o[1:]))
                    else:
                        ok = False
                        break
                if ok and out:
                    res = out
        finally:
            self._summ_busy.discard(fid)
        self._summ[fid] = res
        return res

    def lift_once(self, fn, origins, in_test=False):
        """Substitute parameter-rooted origins into every call site / creation site of fn.
        Returns [(caller Fn, bb of the site, substituted origin set)] or None if some origin
        is not rooted at a parameter."""
        if not origins or not all(o[0][0] == "param" for o in origins):
            return None
        out = []
        if fn.kind == "closure":
            site = self.closure_sites.get(fn.id)
            if site is None:
                return []
            pf, bb, idx, rv = site
            caps = fn.body.get("captures", [])
            sub = set()
            for o in origins:
                steps = o[1:]
                if steps and steps[0] == ("field", "pointer"):
                    steps = steps[1:]
                if o[0][1] != 1 or not steps or steps[0][0] != "field":
                    return None
                f = steps[0][1]
                k = caps.index(f) if f in caps else (f if isinstance(f, int) else None)
                if k is None or k >= len(rv["ops"]):
                    return None
                sub |= pf._op_origins(rv["ops"][k], steps[1:], frozenset())
            return [(pf, bb, sub)]
        for cs in self.callers.get(fn.id, []):
            if cs.fn.body.get("in_test") and not in_test:
                continue
            sub = set()
            for o in origins:
                ai = o[0][1] - 1
                if ai >= len(cs.args):
                    return None
                sub |= cs.fn._op_origins(cs.args[ai], o[1:], frozenset())
            out.append((cs.fn, cs.bb, sub))
        return out

    # --------------------------------------------------------------- lifting (A3)
    def lift(self, fn, origin, depth=0, seen=None):
        """Rewrite an origin rooted at a parameter/upvar of `fn` into the callers' terms.
        Returns a set of (Fn, origin) pairs whose roots are no longer parameters (or that
        have no caller)."""
        if seen is None:
            seen = set()
        root = origin[0]
        if root[0] != "param" or depth > 8:
            return {(fn.id, origin)}
        key = (fn.id, origin)
        if key in seen:
            return set()
        seen = seen | {key}
        out = set()
        argi = root[1] - 1
        steps = origin[1:]
        if fn.kind == "closure":
            site = self.closure_sites.get(fn.id)
            if steps and steps[0] == ("field", "pointer"):
                steps = steps[1:]       # Pin<&mut Coroutine>
            if root[1] == 1 and steps and steps[0][0] == "field" and site is not None:
                pf, bb, idx, rv = site
                caps = fn.body.get("captures", [])
                f = steps[0][1]
                k = caps.index(f) if f in caps else (f if isinstance(f, int) else None)
                if k is not None and k < len(rv["ops"]):
                    for o in pf._op_origins(rv["ops"][k], steps[1:], frozenset()):
                        out |= self.lift(pf, o, depth + 1, seen)
                    return out
            return {(fn.id, origin)}
        sites = self.callers.get(fn.id, [])
        if not sites:
            return {(fn.id, origin)}
        for cs in sites:
            if argi >= len(cs.args):
                out.add((fn.id, origin))
                continue
            for o in cs.fn._op_origins(cs.args[argi], steps, frozenset()):
                out |= self.lift(cs.fn, o, depth + 1, seen)
        return out


def load(path):
    return Program(Facts(path))


def fmt_origin(o):
    root = o[0]
    s = ":".join(str(x) for x in root)
    for st in o[1:]:
        s += "." + ":".join(str(x) for x in st)
    return s
