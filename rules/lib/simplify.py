"""CFG clean-up before any rule runs: drop elaboration leaves `switchInt(copy _flag)` diamonds
(and re-tests of enum discriminants) whose arms only drop values or reset flags and then meet
again.  None of the rules is about when memory is freed, and the diamonds stand between a value's
construction and the switch that tests it, which blocks jump threading after inlining.  Each such
switch is replaced by a jump to the block where its arms meet."""


def _operands(x, out):
    if isinstance(x, dict):
        if x.get("k") in ("copy", "move") and isinstance(x.get("place"), dict):
            out.append((x["k"], x["place"]))
            for pr in x["place"].get("proj", []):
                _operands(pr, out)
            return
        for k, v in x.items():
            _operands(v, out)
    elif isinstance(x, list):
        for v in x:
            _operands(v, out)


def drop_flags(body):
    """Unnamed bool locals that are only assigned constants and only read by `switchInt(copy f)`."""
    named = {d["value"].get("local") for d in body.get("debug", []) if "local" in d["value"] and not d["value"]["proj"]}
    cand = set()
    for l in body["locals"]:
        if l["ty"]["s"] == "bool" and l["i"] not in named and l["i"] > body.get("arg_count", 0) and l["i"] != 0:
            cand.add(l["i"])
    assigned = set()
    for b in body["blocks"]:
        for st in b["stmts"]:
            if st["k"] != "assign":
                continue
            pl, rv = st["place"], st["rv"]
            if not pl["proj"] and pl["local"] in cand:
                if rv["k"] == "use" and rv["op"]["k"] == "const":
                    assigned.add(pl["local"])
                else:
                    cand.discard(pl["local"])
            ops = []
            _operands(rv, ops)
            for _, p in ops:
                cand.discard(p["local"])
            if isinstance(rv.get("place"), dict):
                cand.discard(rv["place"]["local"])
            for pr in pl.get("proj", []):
                ops2 = []
                _operands(pr, ops2)
                for _, p in ops2:
                    cand.discard(p["local"])
        t = b["term"]
        if t["k"] == "switch":
            d = t["discr"]
            if d["k"] == "move" and not d["place"]["proj"]:
                cand.discard(d["place"]["local"])
            elif d["k"] != "copy":
                ops = []
                _operands(d, ops)
                for _, p in ops:
                    cand.discard(p["local"])
        else:
            ops = []
            _operands({k: v for k, v in t.items() if k != "span"}, ops)
            for _, p in ops:
                cand.discard(p["local"])
            if t["k"] == "call" and not t["dest"]["proj"]:
                cand.discard(t["dest"]["local"])
    return cand & assigned


def strip_drop_scaffolding(raw):
    n = 0
    for body in raw["bodies"]:
        if body["kind"] == "promoted":
            continue
        flags = drop_flags(body)
        blocks = body["blocks"]

        def scaffold_stmts(b):
            for st in b["stmts"]:
                if st["k"] != "assign":
                    return False
                rv, pl = st["rv"], st["place"]
                if rv["k"] == "discriminant":
                    continue
                if rv["k"] == "use" and rv["op"]["k"] == "const" and not pl["proj"] and pl["local"] in flags:
                    continue
                return False
            return True

        def is_scaffold_switch(i, depth=0):
            b = blocks[i]
            t = b["term"]
            if t["k"] != "switch" or b["cleanup"]:
                return False
            d = t["discr"]
            if not (d["k"] in ("copy", "move") and not d["place"]["proj"]):
                return False
            l = d["place"]["local"]
            if l in flags:
                return True
            # a discriminant re-read for dropping: every arm is scaffolding
            succ = [x for _, x in t["targets"]] + [t["otherwise"]]
            if depth > 3:
                return False
            isdisc = any(st["k"] == "assign" and st["place"]["local"] == l and st["rv"]["k"] == "discriminant" for st in b["stmts"])
            if not isdisc:
                return False
            if all(chain_ok(x, depth + 1) for x in succ):
                return True
            # `[0: J, otherwise: D]` with D: drop(..) -> J : a re-test that only decides whether
            # something is dropped before J
            real = [x for x in set(succ) if not chain_ok(x, depth + 1)]
            if len(real) != 1:
                return False
            j = real[0]
            for x in set(succ):
                if x == j:
                    continue
                if not leads_only_to(x, j, 0):
                    return False
            return True

        def leads_only_to(x, j, depth):
            """every way on from x is scaffolding (flag tests, drops) and arrives at j"""
            if x == j:
                return True
            if depth > 6:
                return False
            b = blocks[x]
            if b["cleanup"] or not scaffold_stmts(b):
                return False
            t = b["term"]
            if t["k"] in ("drop", "goto"):
                return leads_only_to(t["target"], j, depth + 1)
            if t["k"] == "switch":
                d = t["discr"]
                if not (d["k"] in ("copy", "move") and not d["place"]["proj"] and d["place"]["local"] in flags):
                    return False
                nxt = [y for _, y in t["targets"]] + [t["otherwise"]]
                nxt = [y for y in nxt if blocks[y]["term"]["k"] != "unreachable" or blocks[y]["stmts"]]
                return bool(nxt) and all(leads_only_to(y, j, depth + 1) for y in nxt)
            return False

        def chain_ok(i, depth):
            """block i is scaffolding: only flag resets / discriminant reads, ending in drop / goto /
            another scaffold switch / unreachable"""
            b = blocks[i]
            if b["cleanup"] or not scaffold_stmts(b):
                return False
            t = b["term"]
            if t["k"] in ("drop", "goto", "unreachable"):
                return True
            if t["k"] == "switch":
                return is_scaffold_switch(i, depth)
            return False

        def chain(i):
            """i, then successors while they are linear scaffolding; the last element is the first
            block that is not (or a switch)."""
            out = [i]
            seen = {i}
            cur = i
            while True:
                b = blocks[cur]
                t = b["term"]
                if b["cleanup"] or not scaffold_stmts(b) or t["k"] not in ("drop", "goto"):
                    break
                cur = t["target"]
                if cur in seen:
                    break
                seen.add(cur)
                out.append(cur)
            return out
        changed = True
        rounds = 0
        while changed and rounds < 20:
            changed = False
            rounds += 1
            for b in blocks:
                if b["cleanup"]:
                    continue
                i = b["i"]
                if not is_scaffold_switch(i):
                    continue
                t = b["term"]
                succ = []
                for x in [y for _, y in t["targets"]] + [t["otherwise"]]:
                    if x not in succ and blocks[x]["term"]["k"] != "unreachable":
                        succ.append(x)
                if not succ:
                    continue
                chains = [chain(x) for x in succ]
                join = None
                for c in chains[0]:
                    if all(c in ch for ch in chains[1:]):
                        join = c
                        break
                if join is None:
                    # arms that test drop flags on their way: the join is the one real block
                    real = [x for x in succ if not chain_ok(x, 1)]
                    if len(real) == 1 and all(leads_only_to(x, real[0], 0) for x in succ):
                        join = real[0]
                if join is None:
                    continue
                b["term"] = {"k": "goto", "target": join, "span": t["span"]}
                n += 1
                changed = True
    return n
