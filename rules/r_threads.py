"""Rules about the per-rule threads, the channel protocol and the join loop
(build.rs): C01.R2, C03.R1-R5, C04.R2-R5, C05.R1-R4, C20.R4."""
from engine import rule
from roles import Roles, SEND, RECV, JOIN, SPAWN
from lib.mir import AnalysisError, fmt_origin

CANCEL = "packet::Packet::cancel"
FROM_TICKET = "packet::Packet::from_ticket"


def is_call_origin(o, path=None):
    return o[0][0] == "call" and (path is None or o[0][3] == path)


def packet_kind(fn, send_cs):
    """'cancel' | 'ticket' | None for the packet operand of a send."""
    org = fn.origins_of_operand(send_cs.args[1])
    kinds = set()
    for o in org:
        if is_call_origin(o, CANCEL) and len(o) == 1:
            kinds.add("cancel")
        elif is_call_origin(o, FROM_TICKET) and len(o) == 1:
            kinds.add("ticket")
        else:
            kinds.add("other")
    return kinds.pop() if len(kinds) == 1 else "other"


def send_all_summary(P, g):
    """If local function g sends one packet of one kind to every element of a Vec-of-senders
    parameter (complete loop, every iteration, only early exit = SendError returning Err, Ok
    only after exhaustion) return (param index, kind), else None."""
    if g.kind == "closure" or g.body.get("in_test"):
        return None
    sends = g.calls_to(SEND)
    if len(sends) != 1:
        return None
    s = sends[0]
    lps = [lp for lp in g.loops() if s.bb in lp["body"]]
    if len(lps) != 1:
        return None
    lp = lps[0]
    if not (lp["iter"] and all(o[0][0] == "param" and all(st[0] in ("iter", "adapt") for st in o[1:]) for o in lp["iter"])):
        return None
    k = next(iter(lp["iter"]))[0][1]
    so = g.origins_of_operand(s.args[0])
    if not (so and all(any(o[:len(e)] == e for e in lp["elem"]) for o in so)):
        return None
    if not g.every_iteration_calls(lp, [s.bb]):
        return None
    err_edges = g.edges_of_call_variant(s, "Err")
    allowed = g.reach([d for (_, d) in err_edges])
    for (a, b) in g.loop_exits(lp):
        if (a, b) not in err_edges and a not in allowed:
            return None
    # Ok only after exhaustion; the SendError arm returns Err
    for (bb, idx, rv, pl) in g.constructs("std::result::Result", "Ok"):
        if pl["local"] == 0 and not g.dominated_by_edges(bb, {lp["none"]}):
            return None
    after_err = g.reach([d for (_, d) in err_edges])
    if any(pl["local"] == 0 and bb in after_err and g.dominated_by_edges(bb, err_edges) for (bb, idx, rv, pl) in g.constructs("std::result::Result", "Ok")):
        return None
    pk = packet_kind(g, s)
    if pk not in ("cancel", "ticket"):
        return None
    return (k, pk)


ORDER_DESTROYING = ("swap_remove", "swap", "reverse", "sort", "sort_by", "sort_by_key", "sort_unstable", "sort_unstable_by",
                    "sort_unstable_by_key", "rotate_left", "rotate_right", "retain", "retain_mut", "dedup", "dedup_by",
                    "dedup_by_key", "truncate", "clear", "drain", "split_off", "fill", "resize", "pop", "remove")
_KNOWN_FNS = None


def _is_new_function(P, fid):
    """not a function (or closure of a function) of the pinned tree"""
    global _KNOWN_FNS
    if _KNOWN_FNS is None:
        import json as _json
        import os as _os
        with open(_os.path.join(_os.path.dirname(_os.path.abspath(__file__)), "known_functions.json")) as fh:
            _KNOWN_FNS = set(_json.load(fh).get("functions", []))
    base = fid.split("::{closure")[0]
    return base not in _KNOWN_FNS


def _const_bits(f, op):
    """bits of the constant an operand is (through plain copies), else None"""
    seen = set()
    while op["k"] in ("copy", "move") and not op["place"]["proj"] and op["place"]["local"] not in seen:
        seen.add(op["place"]["local"])
        defs = [d for d in f.defs.get(op["place"]["local"], ()) if not d[3]["proj"]]
        if len(defs) != 1 or defs[0][0] != "assign" or defs[0][4]["k"] != "use":
            return None
        op = defs[0][4]["op"]
    return op.get("bits") if op["k"] == "const" else None


def helper_sends(P, fn):
    """Calls in `fn` to send-all helpers: [(callsite, param index, kind)]"""
    out = []
    for c in fn.calls:
        for t in P.local_targets(c):
            summ = send_all_summary(P, P.fns[t])
            if summ is not None:
                out.append((c, summ[0], summ[1]))
    return out


def send_loops(fn):
    """Loops of `fn` containing a Sender::send.  [(loop, send callsite)]"""
    out = []
    sends = fn.calls_to(SEND)
    lps = fn.loops()
    used = set()
    for lp in lps:
        inside = [s for s in sends if s.bb in lp["body"]]
        if inside:
            out.append((lp, inside))
            used.update(id(s) for s in inside)
    stray = [s for s in sends if id(s) not in used]
    return out, stray


def captured_sender_vec(fn):
    """Place steps (below the closure environment) of every captured Vec of Senders."""
    return [tuple(sl["steps"]) for sl in fn.capture_slots() if "Sender<" in sl["ty"]["s"] and sl["ty"]["s"].startswith("std::vec::Vec<")]


@rule("C04.R3", floor=5)
def c04_r3(ctx):
    """Every thread closure of build sends exactly one packet per outgoing edge on every
    return path: all sends sit in complete loops over the captured sender vector, every
    return is reached through the exhaustion of one such loop (or a SendError arm), the
    packet is `from_ticket` iff the closure returns Ok and `cancel` iff it returns Err."""
    R = Roles(ctx.P)
    leaf, node = R.build_closures()
    for cl in (leaf, node):
        ctx.saw(cl)
        vecs = captured_sender_vec(cl)
        ctx.need(len(vecs) == 1, "closure %s captures exactly one Vec of Senders" % cl.id)
        vec = vecs[0]
        loops, stray = send_loops(cl)
        for s in stray:
            ctx.viol((cl.id, "send-outside-loop"), "Sender::send outside a loop over the captured sender vector", s.where)
        none_edges = set()
        senderr_edges = set()
        for lp, sends in loops:
            ctx.inst("send loop in %s" % cl.id, cl.where(lp["header"]))
            key = (cl.id, "send-loop", packet_kind(cl, sends[0]))
            if len(sends) != 1:
                ctx.viol(key + ("multi",), "more than one send in one loop iteration", sends[1].where)
                continue
            s = sends[0]
            # (c) collection: the captured sender vector, no truncating adaptor
            it = lp["iter"]
            good_iter = all(o[0] == ("param", 1) and tuple(o[1:1 + len(vec)]) == vec and
                            all(st[0] in ("iter", "adapt") for st in o[1 + len(vec):]) for o in it)
            if not good_iter:
                ctx.viol(key + ("collection",), "send loop does not traverse the whole captured sender vector `%s` (iterates %s)" % (".".join(x[1] for x in vec), sorted(fmt_origin(o) for o in it)), cl.where(lp["header"]))
            # receiver of send is this iteration's element
            so = cl.origins_of_operand(s.args[0])
            elem_ok = all(o[:len(e)] == e for o in so for e in lp["elem"]) and so
            if not elem_ok and so and any(o[0][0] == "call" and o[0][3].split("::")[0] not in ("std", "core", "alloc") and o[0][3] not in ctx.P.fns
                                          for o in so):
                # the sender is what a method of a crate-local trait hands out (`outlet.sender()`):
                # which impl runs depends on a type the inlined generic code no longer shows
                raise AnalysisError("idiom not recognised: the sender used in %s comes out of an unresolved trait method (%s)" % (cl.id, sorted(o[0][3] for o in so if o[0][0] == "call")[0]))
            if not elem_ok:
                ctx.viol(key + ("receiver",), "send is not on this iteration's sender", s.where)
            # (a) every iteration sends
            if not cl.every_iteration_calls(lp, [s.bb]):
                ctx.viol(key + ("skip",), "an iteration of the send loop can skip the send", s.where)
            # (b) exits: only the SendError arm
            err_edges = cl.edges_of_call_variant(s, "Err")
            senderr_edges |= err_edges
            allowed_src = cl.reach([d for (_, d) in err_edges])
            for (a, b) in cl.loop_exits(lp):
                if (a, b) in err_edges or a in allowed_src:
                    continue
                ctx.viol(key + ("early-exit",), "send loop can be left before every dependent was told", cl.where(a))
            none_edges.add(lp["none"])
            # packet kind vs returned value
            pk = packet_kind(cl, s)
            after = cl.reach([lp["none"][1]])
            rets = [(bb, idx, rv) for (bb, idx, rv, pl) in cl.constructs("std::result::Result") if bb in after and pl["local"] == 0 and not pl["proj"]]
            kinds = {rv["kind"]["variant"] for (_, _, rv) in rets}
            want = {"ticket": {"Ok"}, "cancel": {"Err"}}.get(pk)
            if want is None:
                ctx.viol(key + ("packet",), "packet sent is neither Packet::from_ticket(..) nor Packet::cancel()", s.where)
            elif kinds != want:
                ctx.viol(key + ("mismatch",), "closure returns %s after sending %s packets" % (sorted(kinds), pk), s.where)
            else:
                ctx.ok()
        # send-all helpers called with the captured sender vector count as loops
        for (hc, k, pk) in helper_sends(ctx.P, cl):
            ctx.inst("send-all helper call in %s" % cl.id, hc.where)
            ao = cl.origins_of_operand(hc.args[k - 1])
            if not all(o[0] == ("param", 1) and tuple(o[1:]) == vec for o in ao):
                ctx.viol((cl.id, "helper-other-vector", pk), "a send-all helper is not given the captured sender vector", hc.where)
                continue
            ok_e = cl.edges_of_call_variant(hc, "Ok")
            er_e = cl.edges_of_call_variant(hc, "Err")
            none_edges |= ok_e
            senderr_edges |= er_e
            after = cl.reach([d for (_, d) in ok_e])
            rets = [(bb, idx, rv) for (bb, idx, rv, pl) in cl.constructs("std::result::Result") if bb in after and pl["local"] == 0 and not pl["proj"] and cl.dominated_by_edges(bb, ok_e)]
            kinds = {rv["kind"]["variant"] for (_, _, rv) in rets}
            want = {"ticket": {"Ok"}, "cancel": {"Err"}}[pk]
            if kinds != want:
                ctx.viol((cl.id, "send-loop", pk, "mismatch"), "closure returns %s after sending %s packets" % (sorted(kinds), pk), hc.where)
            else:
                ctx.ok()
        # every return goes through a loop exhaustion or a SendError arm
        r = cl.reach([0], avoid_edges=none_edges | senderr_edges)
        bad = [b for b in cl.return_blocks if b in r]
        if bad and any(g.calls_to(SEND) and g.id != cl.id and not g.body.get("in_test") and
                       (_is_new_function(ctx.P, g.body.get("root") or g.id) or g.body.get("parent") == cl.id or g.body.get("root") == cl.id)
                       for g in ctx.P.fns.values() if g.id not in (leaf.id, node.id)):
            raise AnalysisError("idiom not recognised: %s sends through a helper or an iterator adaptor's closure that was not dissolved into it" % cl.id)
        if bad:
            ctx.viol((cl.id, "return-without-send"), "a return path of the thread closure sends nothing to its dependents", cl.where(bad[0]))
        else:
            ctx.ok()


@rule("C05.R1", floor=5)
def c05_r1(ctx):
    """Sender<Packet>::send is called only inside the send loops of the build thread closures."""
    R = Roles(ctx.P)
    leaf, node = R.build_closures()
    allowed = {leaf.id, node.id}
    for cl in (leaf, node):
        for (hc, k, pk) in helper_sends(ctx.P, cl):
            for t in ctx.P.local_targets(hc):
                # a send-all helper is an extension of the closures as long as only they call it
                if all(c.fn.id in (leaf.id, node.id) for c in ctx.P.callers.get(t, []) if not c.fn.body.get("in_test")):
                    allowed.add(t)
    for fn in ctx.P.fns.values():
        if fn.body.get("in_test"):
            continue
        for s in fn.calls_to(SEND):
            ctx.inst("send site", s.where)
            if fn.id not in allowed:
                root = fn.body.get("root") or fn.body.get("parent") or fn.id
                if _is_new_function(ctx.P, root) or (fn.kind == "closure" and (fn.body.get("parent") in allowed or fn.body.get("root") in allowed)
                                                     and fn.id not in (leaf.id, node.id)):
                    # a send inside a helper (or a closure handed to an iterator adaptor) that the
                    # loader could not dissolve into the thread closures: who calls it, and for
                    # which senders, is not read
                    raise AnalysisError("idiom not recognised: packets are sent from %s, a function that is not part of the pinned tree and was not inlined" % fn.id)
                ctx.viol((fn.id, "foreign-send"), "Sender::send outside the thread closures of build", s.where)
            else:
                ctx.ok()
    # no other way to consume a channel
    import zero
    for (fn, c, kind) in zero.nonblocking_channel_calls([f for f in ctx.P.fns.values() if not f.body.get("in_test")]):
        if kind == "recv":
            ctx.viol((fn.id, "nonblocking-recv", c.name), "channel consumed with %s: arrival order or absence becomes observable" % c.name, c.where)
        else:
            ctx.viol((fn.id, "sender-api", c.name), "unexpected Sender API %s" % c.name, c.where)


def _recv_loop(ctx, d):
    recvs = d.calls_to(RECV)
    ctx.need(len(recvs) == 1, "exactly one recv site in %s" % d.id)
    rc = recvs[0]
    lps = [lp for lp in d.loops() if rc.bb in lp["body"]]
    return rc, lps


@rule("C03.R2", floor=1)
def c03_r2(ctx):
    """The draining function returns Ok only after recv returned Ok on every receiver:
    complete loop over its receiver parameter, recv on every iteration, the only early
    exit is the RecvError arm, Ok is built only after the loop's exhaustion."""
    R = Roles(ctx.P)
    d = R.drain_fn()
    ctx.saw(d)
    rc, lps = _recv_loop(ctx, d)
    ctx.inst("recv site", rc.where)
    if len(lps) != 1:
        ctx.viol((d.id, "recv-not-in-loop"), "recv is not inside a for-loop over the receivers", rc.where)
        return
    lp = lps[0]
    it = lp["iter"]
    if not all(o[0][0] == "param" and all(st[0] in ("iter", "adapt") for st in o[1:]) for o in it):
        ctx.viol((d.id, "recv-collection"), "recv loop does not traverse the whole receiver parameter (iterates %s)" % sorted(fmt_origin(o) for o in it), d.where(lp["header"]))
    ro = d.origins_of_operand(rc.args[0])
    if not (ro and all(o[:len(e)] == e for o in ro for e in lp["elem"])):
        ctx.viol((d.id, "recv-receiver"), "recv is not called on this iteration's receiver", rc.where)
    if not d.every_iteration_calls(lp, [rc.bb]):
        ctx.viol((d.id, "recv-skip"), "an iteration can skip recv", rc.where)
    err_edges = d.edges_of_call_variant(rc, "Err")
    allowed = d.reach([x for (_, x) in err_edges])
    for (a, b) in d.loop_exits(lp):
        if (a, b) in err_edges or a in allowed:
            continue
        ctx.viol((d.id, "drain-early-exit"), "the receiver loop can be left before every receiver delivered (a later sender would fail on a closed channel)", d.where(a))
    oks = [(bb, idx) for (bb, idx, rv, pl) in d.constructs("std::result::Result", "Ok") if pl["local"] == 0]
    ctx.need(oks, "an Ok return in %s" % d.id)
    for (bb, idx) in oks:
        if not d.dominated_by_edges(bb, {lp["none"]}):
            ctx.viol((d.id, "ok-before-drain"), "Ok is returned on a path that did not exhaust the receiver loop", d.where(bb, idx))
        else:
            ctx.ok()
    # a receiver whose sender hung up without a packet never delivered: no Ok after that
    after_err = d.reach([x for (_, x) in err_edges])
    late_oks = [(bb, idx) for (bb, idx) in oks if bb in after_err]
    if late_oks and not _sticky_marker_guards(d, lp, err_edges, [bb for (bb, idx) in oks]):
        _drain_shape_gate(d)        # (results gathered first and examined in a later pass: not read)
        ctx.viol((d.id, "hang-up-ignored"), "a receiver whose sender went away without sending (recv returned Err) can still be followed by the Ok return: the rule runs although one of its sources was never finished", rc.where)


@rule("C04.R4", floor=1)
def c04_r4(ctx):
    """A Cancel packet stops the dependent: the Cancel arm sets a sticky flag on every path
    back to the loop header, the flag is only ever false (before the loop) or true, and the
    Ok return is dominated by the flag's false edge."""
    R = Roles(ctx.P)
    d = R.drain_fn()
    rc, lps = _recv_loop(ctx, d)
    ctx.need(len(lps) == 1, "recv loop")
    _drain_shape_gate(d)
    lp = lps[0]
    gts = [c for c in d.calls if c.bb in lp["body"] and c.path == "packet::Packet::get_ticket"]
    ctx.need(len(gts) == 1, "one Packet::get_ticket call in the recv loop")
    gt = gts[0]
    ctx.inst("cancel arm", gt.where)
    err_edges = d.edges_of_call_variant(gt, "Err")
    ctx.need(err_edges, "Err edge of Packet::get_ticket")
    # candidate flags: user bool locals assigned `true` in blocks reachable from the Err edge inside the loop
    flags = {}
    for l, defs in d.defs.items():
        if not d.is_user(l) or d.local_ty(l)["s"] != "bool":
            continue
        vals = []
        for (kind, bb, idx, place, rv) in defs:
            if kind != "assign" or place["proj"]:
                vals = None
                break
            if rv["k"] == "use" and rv["op"]["k"] == "const" and rv["op"].get("bits") in ("0", "1"):
                vals.append((bb, idx, rv["op"]["bits"] == "1"))
            else:
                vals = None
                break
        if vals:
            flags[l] = vals
    verdict = None
    for l, vals in flags.items():
        trues = [bb for (bb, idx, v) in vals if v]
        falses = [bb for (bb, idx, v) in vals if not v]
        if not trues:
            continue
        # every path from the Cancel edge back to the header sets the flag
        r = d.reach([x for (_, x) in err_edges], avoid_blocks=trues)
        sets_always = lp["header"] not in r and not any(b in r for b in d.return_blocks)
        # `true` only under the Cancel edge; `false` only outside the loop
        true_guarded = all(d.dominated_by_edges(b, err_edges) for b in trues)
        false_outside = all(b not in lp["body"] for b in falses)
        # Ok return dominated by flag-false edge
        flag_false = set()
        for bb in d.live:
            info = d.switch_info(bb)
            if info and info["kind"] in ("value", "local") and info.get("place", {}).get("local", info.get("local")) == l \
                    and not info.get("place", {}).get("proj"):
                flag_false |= d._bool_edges(info, False)
        oks = [(bb, idx) for (bb, idx, rv, pl) in d.constructs("std::result::Result", "Ok") if pl["local"] == 0]
        ok_guarded = oks and all(d.dominated_by_edges(bb, flag_false) for (bb, idx) in oks)
        verdict = (sets_always, true_guarded, false_outside, ok_guarded)
        if all(verdict):
            ctx.ok()
            return
    ctx.viol((d.id, "cancel-not-sticky"),
             "a Cancel packet does not reliably prevent the Ok return (sets flag on every path=%s, flag set only on Cancel=%s, reset only before loop=%s, Ok guarded by flag=%s)" % (verdict or (None,) * 4),
             gt.where)


def _sticky_marker_guards(d, lp, edges, ok_blocks):
    """Some local is set (a bool to true, an Option to Some) on every path from `edges` back to
    the loop header, is set nowhere else inside the loop, and every block of ok_blocks is
    dominated by the test that finds it unset."""
    for l, defs in d.defs.items():
        ty = d.local_ty(l)["s"]
        if l == 0 or not (ty == "bool" or ty.startswith("std::option::Option<")):
            continue
        sets, unsets, other = [], [], False
        for (kind, bb, idx, place, rv) in defs:
            if kind != "assign" or place["proj"]:
                other = True
                break
            if ty == "bool" and rv["k"] == "use" and rv["op"]["k"] == "const" and rv["op"].get("bits") in ("0", "1"):
                (sets if rv["op"]["bits"] == "1" else unsets).append(bb)
            elif ty != "bool" and rv["k"] == "aggregate" and rv["kind"].get("k") == "adt" and rv["kind"].get("variant") in ("Some", "None"):
                (sets if rv["kind"]["variant"] == "Some" else unsets).append(bb)
            else:
                other = True
                break
        if other or not sets:
            continue
        if not all(d.dominated_by_edges(b, edges) for b in sets) or any(b in lp["body"] for b in unsets):
            continue
        r = d.reach([x for (_, x) in edges], avoid_blocks=sets)
        if lp["header"] in r:
            continue
        unset_edges = set()
        for bb in d.live:
            info = d.switch_info(bb)
            if not info:
                continue
            if ty == "bool" and info["kind"] in ("value", "local") and info.get("place", {}).get("local", info.get("local")) == l \
                    and not info.get("place", {}).get("proj"):
                unset_edges |= d._bool_edges(info, False)
            if ty != "bool" and info["kind"] == "variant" and info.get("place", {}).get("local") == l and not info["place"]["proj"]:
                unset_edges |= {(bb, t) for (v, t) in info["targets"] if int(v) == 0}
        if unset_edges and all(d.dominated_by_edges(b, unset_edges) for b in ok_blocks):
            return True
    return False


def _drain_shape_gate(d):
    """The rules about the draining function read the form `one loop that receives and sorts
    the packets' verdicts, one loop that hashes the tickets`.  A pipeline with more stages
    (verdicts collected first and examined in a later pass, folds) may well be right; it is
    not judged."""
    n = len(d.loops())
    if n != 2:
        raise AnalysisError("idiom not recognised: %s has %d loops after normalisation (the rules read the receive loop + hash loop form)" % (d.id, n))


@rule("C01.R2", floor=3)
def c01_r2(ctx):
    """The sources hash covers every upstream hash in receiver order: each Ok(ticket) is
    pushed, the pushed vector is the one fed (completely) to TicketFactory::input_ticket,
    and the factory's result is what is returned."""
    R = Roles(ctx.P)
    d = R.drain_fn()
    rc, lps = _recv_loop(ctx, d)
    ctx.inst("recv site", rc.where)
    if len(lps) != 1 or not all(o[0][0] == "param" and all(st[0] in ("iter", "adapt") for st in o[1:]) for o in lps[0]["iter"]) \
            or d.origins_of_operand(rc.args[0]) != lps[0]["elem"]:
        ctx.viol((d.id, "not-receiver-order"), "tickets are not received by one recv per receiver in the fixed receiver (sorted-source) order: the sources hash would depend on the order in which producers finish, so identical sources can miss the history", rc.where)
        return
    _drain_shape_gate(d)
    lp = lps[0]
    gts = [c for c in d.calls if c.bb in lp["body"] and c.path == "packet::Packet::get_ticket"]
    ctx.need(len(gts) == 1, "Packet::get_ticket call")
    gt = gts[0]
    # the packet examined is the one received
    po = d.origins_of_operand(gt.args[0])
    want = d._call_origins(rc, (("variant", "Ok"), ("field", 0)), frozenset())
    if po != want:
        ctx.viol((d.id, "packet-not-received"), "the packet examined is not the Ok payload of this iteration's recv", gt.where)
    ok_edges = d.edges_of_call_variant(gt, "Ok")
    # (the verdict may be examined in the receiving loop or, when the packets' verdicts are
    #  collected first, in a later loop over them: the loop that holds the Ok edges counts)
    pushes = d.calls_to("std::vec::Vec::<T, A>::push")
    ctx.inst("ticket push", pushes[0].where if pushes else None)
    payload = d._call_origins(gt, (("variant", "Ok"), ("field", 0)), frozenset())
    good = [p for p in pushes if d.origins_of_operand(p.args[1]) == payload]
    if not good:
        ctx.viol((d.id, "ticket-not-pushed"), "the Ok ticket of a packet is not pushed into the ticket vector", gt.where)
        return
    r = d.reach([x for (_, x) in ok_edges], avoid_blocks=[p.bb for p in good])
    headers = {l2["header"] for l2 in d.loops() if any(src in l2["body"] for (src, _) in ok_edges)} or {lp["header"]}
    if headers & r:
        ctx.viol((d.id, "ticket-push-skipped"), "some path drops a received ticket (a source's hash would not reach the sources hash)", gt.where)
    else:
        ctx.ok()
    vec = d.vars_of_operand(good[0].args[0])
    # the order of the vector *is* the receiver order: nothing may re-order or thin it out
    # before it is hashed (a sorted / de-duplicated list of hashes no longer says which source
    # has which content)
    for c2 in d.calls:
        if c2.args and c2.name in ORDER_DESTROYING and d.vars_of_operand(c2.args[0]) == vec:
            ctx.viol((d.id, "tickets-reordered", c2.name), "`%s` is applied to the received hashes before they are hashed into the sources hash: the sources hash no longer depends on which source has which content (two states that exchange the contents of two sources get the same key, and the stale target is reported up to date)" % c2.name, c2.where)
    # second loop: iterates that vector completely into input_ticket
    ins = d.calls_to("ticket::TicketFactory::input_ticket")
    ctx.inst("input_ticket", ins[0].where if ins else None)
    found = False
    for lp2 in d.loops():
        inside = [c for c in ins if c.bb in lp2["body"]]
        if not inside:
            continue
        itv = d.vars_of_operand(lp2["next"].args[0])
        # iterator variable -> its source vector variable
        src = set()
        for o in lp2["iter"]:
            src.add(o)
        it_var = set()
        for (kind, bb, idx, place, payload2) in d.defs.get(lp2["next"].args[0]["place"]["local"], ()):
            pass
        src_vars = _iter_source_vars(d, lp2)
        if src_vars != vec:
            continue
        c = inside[0]
        if d.origins_of_operand(c.args[1]) != lp2["elem"]:
            ctx.viol((d.id, "input-not-elem"), "input_ticket is not fed this iteration's ticket", c.where)
        if not d.every_iteration_calls(lp2, [c.bb]):
            ctx.viol((d.id, "input-skip"), "an iteration can skip input_ticket", c.where)
        if d.loop_exits(lp2):
            ctx.viol((d.id, "input-early-exit"), "the hashing loop can stop early", d.where(lp2["header"]))
        if any(st[0] == "truncate" for o in lp2["iter"] for st in o[1:]):
            ctx.viol((d.id, "input-truncated"), "the hashing loop does not traverse the whole ticket vector", d.where(lp2["header"]))
        fac = d.vars_of_operand(c.args[0])
        # Ok(result(factory)) returned after exhaustion
        res = [x for x in d.calls_to("ticket::TicketFactory::result") if d.vars_of_operand(x.args[0]) == fac]
        oks = [(bb, idx, rv) for (bb, idx, rv, pl) in d.constructs("std::result::Result", "Ok") if pl["local"] == 0]
        good_ret = res and all(d.origins_of_operand(rv["ops"][0]) == d._call_origins(res[0], (), frozenset()) and
                               d.dominated_by_edges(bb, {lp2["none"]}) for (bb, idx, rv) in oks)
        if not good_ret:
            ctx.viol((d.id, "result-not-returned"), "the value returned is not the hash of all received tickets", d.where(lp2["header"]))
        else:
            ctx.ok()
        ctx.inst("hash loop", d.where(lp2["header"]))
        found = True
    if not found:
        ctx.viol((d.id, "no-hash-loop"), "the vector of received tickets is not the one hashed into the sources ticket", good[0].where)


def _iter_source_vars(fn, lp):
    """Variables whose traversal the loop's iterator is (through into_iter/iter/drain)."""
    out = set()
    itl = lp["next"].args[0]
    seen = set()
    work = [itl]
    while work:
        op = work.pop()
        if op["k"] not in ("copy", "move"):
            continue
        l = op["place"]["local"]
        if (l, len(op["place"]["proj"])) in seen:
            continue
        seen.add((l, len(op["place"]["proj"])))
        lty = fn.local_ty(l)["s"].lstrip("&").replace("mut ", "")
        is_iterator_var = lty.startswith(("std::vec::IntoIter", "std::slice::Iter", "std::vec::Drain", "std::iter::", "std::collections::hash_map::Iter",
                                          "std::collections::hash_map::IntoIter", "std::collections::btree_map::Iter", "std::collections::btree_map::IntoIter"))
        if l in fn.names and not op["place"]["proj"] and fn.names[l] != "iter" and not is_iterator_var:
            out |= fn.vars_of_operand(op)
            continue
        for (kind, bb, idx, place, payload) in fn.defs.get(l, ()):
            if kind == "assign":
                rv = payload
                if rv["k"] == "use":
                    work.append(rv["op"])
                elif rv["k"] in ("ref", "raw_ptr"):
                    work.append({"k": "copy", "place": rv["place"]})
            else:
                if payload.args:
                    work.append(payload.args[0])
    return out


@rule("C03.R1", floor=1)
def c03_r1(ctx):
    """The handler that may execute the command is called only on the Ok edge of the
    draining function (all sources final), in the node thread closure."""
    R = Roles(ctx.P)
    leaf, node = R.build_closures()
    d = R.drain_fn()
    drains = [c for c in node.calls if d.id in ctx.P.local_targets(c)]
    ctx.need(len(drains) == 1, "one call of the draining function in the node closure")
    ok_edges = node.edges_of_call_variant(drains[0], "Ok")
    hs = [c for c in R.handler_calls(node) if any(R.reaches_exec(t) for t in ctx.P.local_targets(c))]
    ctx.need(hs, "a call that reaches execute_command in the node closure")
    for h in hs:
        ctx.inst("handler call", h.where)
        if not node.dominated_by_edges(h.bb, ok_edges):
            ctx.viol((node.id, "handler-before-sources", h.path), "a function that can run the command is called without waiting for all sources", h.where)
        else:
            ctx.ok()
    # execute_command is reachable from threads only through those handler calls
    for (pf, cs, cl) in R.spawns():
        if pf is not R.entry("build"):
            continue
        for c in cl.calls:
            if c in hs:
                continue
            for t in ctx.P.local_targets(c):
                if t != d.id and R.reaches_exec(t):
                    ctx.viol((cl.id, "exec-elsewhere", c.path), "execute_command reachable from a thread outside the guarded handler call", c.where)
        if R.exec_calls(cl):
            ctx.viol((cl.id, "exec-inline"), "execute_command called directly in a thread closure", R.exec_calls(cl)[0].where)


@rule("C03.R3", floor=2)
def c03_r3(ctx):
    """Every from_ticket packet is sent under the Ok edge of the closure's handler call and
    carries a ticket taken from that call's Ok payload (file_state_vec); every cancel
    packet is sent under an Err edge of the handler or of the draining function."""
    R = Roles(ctx.P)
    leaf, node = R.build_closures()
    d = R.drain_fn()
    for cl in (leaf, node):
        hs = R.handler_calls(cl)
        ctx.need(len(hs) == 1, "exactly one handler call in %s" % cl.id)
        h = hs[0]
        ok_edges = cl.edges_of_call_variant(h, "Ok")
        err_edges = cl.edges_of_call_variant(h, "Err")
        for c in cl.calls:
            if d.id in ctx.P.local_targets(c):
                err_edges |= cl.edges_of_call_variant(c, "Err")
        payload = cl._call_origins(h, (("variant", "Ok"), ("field", 0), ("field", "file_state_vec")), frozenset())
        for (hc, k, pk) in helper_sends(ctx.P, cl):
            ctx.inst("%s helper call in %s" % (pk, cl.id), hc.where)
            if pk == "cancel":
                if cl.dominated_by_edges(hc.bb, err_edges):
                    ctx.ok()
                else:
                    ctx.viol((cl.id, "cancel-on-success"), "dependents are cancelled on a path where nothing failed", hc.where)
            else:
                raise AnalysisError("idiom not recognised: hashes are announced through a helper function at %s" % hc.where)
        for s in cl.calls_to(SEND):
            pk = packet_kind(cl, s)
            ctx.inst("%s send in %s" % (pk, cl.id), s.where)
            if pk == "ticket":
                if not cl.dominated_by_edges(s.bb, ok_edges):
                    ctx.viol((cl.id, "announce-before-done"), "a hash is announced to dependents before the handler returned Ok", s.where)
                    continue
                # the ticket: from_ticket(arg) with arg = get_ticket(payload.file_state_vec, i)
                ft = [c for c in cl.calls_to(FROM_TICKET) if cl._call_origins(c, (), frozenset()) == cl.origins_of_operand(s.args[1])]
                good = False
                for f in ft:
                    for o in cl.origins_of_operand(f.args[0]):
                        if is_call_origin(o, "blob::FileStateVec::get_ticket"):
                            g = cl.call_at[o[0][2]]
                            if cl.origins_of_operand(g.args[0]) == payload:
                                good = True
                if not good:
                    ctx.viol((cl.id, "announce-wrong-ticket"), "the announced ticket is not taken from the handler's result (file_state_vec)", s.where)
                else:
                    ctx.ok()
            elif pk == "cancel":
                if not cl.dominated_by_edges(s.bb, err_edges):
                    ctx.viol((cl.id, "cancel-on-success"), "dependents are cancelled on a path where nothing failed", s.where)
                else:
                    ctx.ok()


@rule("C03.R5", floor=2)
def c03_r5(ctx):
    """The sub-index given to FileStateVec::get_ticket on the announce path is the one
    stored beside the very Sender used for that send (field 0 / field 1 of the same
    tuple); for leaves it is the constant 0."""
    R = Roles(ctx.P)
    leaf, node = R.build_closures()
    for cl, is_node in ((leaf, False), (node, True)):
        loops, stray = send_loops(cl)
        for lp, sends in loops:
            s = sends[0]
            if packet_kind(cl, s) != "ticket":
                continue
            gts = [c for c in cl.calls_to("blob::FileStateVec::get_ticket") if c.bb in lp["body"]]
            ctx.inst("announce in %s" % cl.id, s.where)
            if len(gts) != 1:
                ctx.viol((cl.id, "subindex-shape"), "expected one get_ticket per announce", s.where)
                continue
            g = gts[0]
            io = cl.origins_of_operand(g.args[1])
            so = cl.origins_of_operand(s.args[0])
            if is_node:
                elem = lp["elem"]
                want_i = {e + (("field", 0),) for e in elem}
                want_s = {e + (("field", 1),) for e in elem}
                if io != want_i or so != want_s:
                    ctx.viol((cl.id, "subindex-mismatch"), "the target index announced does not come from the tuple that holds the sender (index %s, sender %s)" % (sorted(map(fmt_origin, io)), sorted(map(fmt_origin, so))), g.where)
                else:
                    ctx.ok()
            else:
                consts = {o for o in io if o[0][0] == "const"}
                if io != consts:
                    # an index that is computed (carried beside the sender, ..): its value is not
                    # something this rule can read
                    raise AnalysisError("idiom not recognised: the index a leaf announces in %s is not a constant" % cl.id)
                if {o[0][1] for o in io} != {"0_usize"} and _const_bits(cl, g.args[1]) != "0":
                    ctx.viol((cl.id, "leaf-subindex"), "a leaf announces something other than its only file's hash", g.where)
                else:
                    ctx.ok()


@rule("C05.R3", floor=2)
def c05_r3(ctx):
    """Threads are all spawned before any is joined, and every handle pushed is joined:
    each join site is dominated by the exhaustion of every spawn loop, the join loop
    traverses the whole handle vector, and its only early exits return an error."""
    R = Roles(ctx.P)
    for ename in ("build", "clean"):
        e = R.entry(ename)
        ctx.saw(e)
        joins = e.calls_to(JOIN)
        spawns = e.calls_to(SPAWN)
        ctx.need(joins and spawns, "spawn and join in %s" % e.id)
        lps = e.loops()
        spawn_loops = [lp for lp in lps if any(s.bb in lp["body"] for s in spawns)]
        if len(spawn_loops) < 1 or any(not any(s.bb in lp["body"] for lp in spawn_loops) for s in spawns):
            ctx.viol((e.id, "spawn-not-in-loop"), "thread::spawn outside a loop over the plan", spawns[0].where)
            continue
        # handle vector: the vector the spawn results are pushed into
        hvec = None
        for s in spawns:
            pushes = [p for p in e.calls_to("std::vec::Vec::<T, A>::push")
                      if any(o[:1] == ((("call", e.id, s.bb, s.path)),) or o[0] == ("call", e.id, s.bb, s.path) for o in _deep(e, p.args[1]))]
            lp = [l for l in spawn_loops if s.bb in l["body"]][0]
            if not pushes or not e.every_iteration_calls(lp, [p.bb for p in pushes] ) and not _falls_out_with_err(e, lp, [p.bb for p in pushes]):
                ctx.viol((e.id, "handle-dropped"), "a spawned thread's JoinHandle is not kept for joining", s.where)
                continue
            v = e.vars_of_operand(pushes[0].args[0])
            if hvec is None:
                hvec = v
            elif hvec != v:
                ctx.viol((e.id, "two-handle-vectors"), "join handles are kept in different vectors", pushes[0].where)
        for j in joins:
            ctx.inst("join in %s" % e.id, j.where)
            jl = [lp for lp in lps if j.bb in lp["body"]]
            if len(jl) != 1:
                ctx.viol((e.id, "join-not-in-loop"), "join outside a loop over the handle vector", j.where)
                continue
            jl = jl[0]
            ok = True
            for sl in spawn_loops:
                if not e.dominated_by_edges(j.bb, {sl["none"]}):
                    ctx.viol((e.id, "join-before-spawn"), "a thread is joined before every thread of the plan was spawned (its dependents might never start)", j.where)
                    ok = False
            if not _same_vector(e, _iter_source_vars(e, jl), hvec) or any(st[0] == "truncate" for o in jl["iter"] for st in o[1:]):
                ctx.viol((e.id, "join-other-collection"), "the join loop does not traverse the vector of all handles", e.where(jl["header"]))
                ok = False
            jo = e.origins_of_operand(j.args[0])
            if not (jo and all(any(o[:len(el)] == el for el in jl["elem"]) for o in jo)):
                ctx.viol((e.id, "join-not-elem"), "join is not called on this iteration's handle", j.where)
                ok = False
            if not e.every_iteration_calls(jl, [j.bb]):
                ctx.viol((e.id, "join-skipped"), "an iteration of the join loop can skip join", j.where)
                ok = False
            if ok:
                ctx.ok()


def _same_vector(fn, src, hvec):
    """The loop's source is the handle vector itself, or a variable the whole handle vector was
    moved into (returned by the spawning helper, handed to the joining helper): one creation
    site, and the handle vector among the variables the value passed through."""
    if src == hvec:
        return True
    if not src or not hvec or not all(v[0][0] == "var" and len(v) == 1 for v in src | hvec):
        return False
    def fam(vs):
        out = set()
        for v in vs:
            out |= fn.var_family({"k": "copy", "place": {"local": v[0][1], "proj": []}})
        return out
    fs, fh = fam(src), fam(hvec)
    roots = lambda f: {o for o in f if o[0][0] != "var"}
    return hvec <= fs and roots(fs) == roots(fh) and len(roots(fs)) == 1


def _deep(fn, op):
    """Origins of an operand, additionally looking inside tuple/struct aggregates it is
    built from (one level), so `(ticket, spawn(..))` yields the spawn call too."""
    out = set(fn.origins_of_operand(op))
    extra = set()
    for o in out:
        if o[0][0] == "agg" and o[0][1] == fn.id:
            rv = fn.blocks[o[0][2]]["stmts"][o[0][3]]["rv"]
            for a in rv["ops"]:
                extra |= fn.origins_of_operand(a)
    return out | extra


def _falls_out_with_err(fn, lp, blocks):
    """Every path from the Some edge that avoids `blocks` and returns to the header is
    impossible, i.e. skipping is possible only by leaving the loop."""
    r = fn.reach([lp["some"][1]], avoid_blocks=set(blocks))
    return lp["header"] not in r


VEC_SHRINKING = {"dedup", "dedup_by", "dedup_by_key", "retain", "retain_mut", "truncate", "clear", "pop", "remove",
                 "swap_remove", "drain", "split_off", "extract_if"}


@rule("C04.R5", floor=1)
def c04_r5(ctx):
    """One error per failed thread, none for cancelled: in the join loop the error vector is
    pushed exactly under the WorkError arm of the joined result, the Canceled arm has no
    effect, neither leaves the loop, and the overall Ok is guarded by `errors.len() == 0`."""
    R = Roles(ctx.P)
    e = R.entry("build")
    joins = e.calls_to(JOIN)
    ctx.need(len(joins) == 1, "one join site in build")
    j = joins[0]
    jl = [lp for lp in e.loops() if j.bb in lp["body"]]
    ctx.need(len(jl) == 1, "join loop")
    jl = jl[0]
    base = e._call_origins(j, (("variant", "Ok"), ("field", 0)), frozenset())
    err_payload = {o + (("variant", "Err"), ("field", 0)) for o in base}
    work_edges = e.edges_variant(lambda info, nm, oth, rest: info["origins"] == err_payload and nm == "WorkError")
    canc_edges = e.edges_variant(lambda info, nm, oth, rest: info["origins"] == err_payload and nm == "Canceled")
    ctx.need(work_edges and canc_edges, "WorkError and Canceled arms of the joined result")
    pushes = [p for p in e.calls_to("std::vec::Vec::<T, A>::push") if p.bb in jl["body"]
              and "WorkError" in e.local_ty(p.args[1]["place"]["local"])["s"]]
    ctx.inst("error push", pushes[0].where if pushes else j.where)
    if len(pushes) != 1:
        ctx.viol((e.id, "error-push-count"), "expected exactly one push of a WorkError in the join loop, found %d" % len(pushes), j.where)
        return
    p = pushes[0]
    want = {o + (("variant", "WorkError"), ("field", 0)) for o in err_payload}
    if e.origins_of_operand(p.args[1]) != want:
        ctx.viol((e.id, "error-push-payload"), "the error collected is not the failed thread's own WorkError", p.where)
    if not e.dominated_by_edges(p.bb, work_edges):
        ctx.viol((e.id, "error-push-unguarded"), "an error is collected on a path other than the WorkError arm", p.where)
    r = e.reach([x for (_, x) in work_edges], avoid_blocks=[p.bb])
    if jl["header"] in r or any(b in r for b in e.return_blocks):
        ctx.viol((e.id, "error-dropped"), "a failed rule's error can be dropped", p.where)
    errvec = e.vars_of_operand(p.args[0])
    # Canceled arm: reaches the header without any call other than drops
    r = e.reach([x for (_, x) in canc_edges], avoid_blocks=[jl["header"]])
    for b in r:
        if b in e.call_at and b in jl["body"]:
            ctx.viol((e.id, "canceled-has-effect"), "the Canceled arm does something (%s)" % e.call_at[b].path, e.call_at[b].where)
    for arm, nm in ((work_edges, "WorkError"), (canc_edges, "Canceled")):
        r = e.reach([x for (_, x) in arm], avoid_blocks=[jl["header"]])
        if any(b in r for b in e.return_blocks):
            ctx.viol((e.id, "arm-leaves-loop", nm), "the %s arm leaves the join loop: later threads are not joined and their errors are lost" % nm, j.where)
    # final verdict
    oks = [(bb, idx) for (bb, idx, rv, pl) in e.constructs("std::result::Result", "Ok") if pl["local"] == 0 and bb not in jl["body"] and e.dominated_by_edges(bb, {jl["none"]})]
    ctx.need(oks, "a final Ok(()) after the join loop")

    def is_len_zero(desc):
        if desc["op"] not in ("Eq", "Ne"):
            return False
        for x, y in ((desc["a"], desc["b"]), (desc["b"], desc["a"])):
            if y["k"] == "const" and y.get("bits") == "0":
                for o in e.origins_of_operand(x):
                    if is_call_origin(o, "std::vec::Vec::<T, A>::len"):
                        ln = e.call_at[o[0][2]]
                        if e.vars_of_operand(ln.args[0]) == errvec:
                            return True
        return False
    # the vector only grows: nothing is taken out of it before it is reported
    for c in e.calls:
        if c.name in VEC_SHRINKING and c.path.startswith(("std::vec::Vec::", "std::slice::", "alloc::vec::Vec::")) and c.args \
                and e.vars_of_operand(c.args[0]) == errvec:
            ctx.viol((e.id, "errors-removed", c.name), "errors are taken out of the collected list (%s) before it is reported: two rules that failed with the same text, or the earlier ones, are reported as fewer errors than rules failed" % c.name, c.where)
    eq_edges = e.nonempty_edges(lambda op: e.vars_of_operand(op) == errvec, False)
    for (bb, idx) in oks:
        if not e.dominated_by_edges(bb, eq_edges):
            ctx.viol((e.id, "ok-despite-errors"), "build can report success although an error was collected", e.where(bb, idx))
        else:
            ctx.ok()


@rule("C04.R2", floor=2)
def c04_r2(ctx):
    """Nothing is recorded for a failed execution: write_rule_history is called only under
    the Ok(Ok(work_result)) edges of join with that result's own rule_history, and
    WorkError / BuildError carry no RuleHistory (a history cannot leave a thread on an
    error path)."""
    R = Roles(ctx.P)
    e = R.entry("build")
    j = e.calls_to(JOIN)
    ctx.need(len(j) == 1, "join")
    j = j[0]
    ws = e.calls_to("history::History::<SystemType>::write_rule_history")
    ctx.need(ws, "write_rule_history call in build")
    okok = e.edges_of_call_variant(j, "Ok")
    inner = e._call_origins(j, (("variant", "Ok"), ("field", 0)), frozenset())
    okok2 = e.edges_of_value_variant(inner, "Ok")
    wr = {o + (("variant", "Ok"), ("field", 0)) for o in inner}
    for w in ws:
        ctx.inst("history write", w.where)
        if not (e.dominated_by_edges(w.bb, okok) and e.dominated_by_edges(w.bb, okok2)):
            ctx.viol((e.id, "history-write-unguarded"), "a rule history is written on a path where the thread did not succeed", w.where)
            continue
        ho = e.origins_of_operand(w.args[2])
        want = {o + (("field", "rule_history"), ("variant", "Some"), ("field", 0)) for o in wr}
        if ho != want:
            ctx.viol((e.id, "history-write-foreign"), "the history written is not the one returned by the joined thread", w.where)
        else:
            ctx.ok()
    # who may write histories at all
    for fn in ctx.P.fns.values():
        if fn.body.get("in_test") or fn is e:
            continue
        for c in fn.calls_to("history::History::<SystemType>::write_rule_history"):
            ctx.viol((fn.id, "history-write-elsewhere"), "write_rule_history called outside the join loop of build", c.where)
    # error types carry no history
    for adt in ("work::WorkError", "build::BuildError"):
        a = ctx.P.facts.adts.get(adt)
        ctx.need(a is not None, adt)
        ctx.inst("error type %s" % adt)
        for v in a["variants"]:
            for f in v["fields"]:
                if "RuleHistory" in f["ty"]["s"] or "FileStateVec" in f["ty"]["s"]:
                    ctx.viol((adt, "error-carries-history", v["name"]), "%s::%s can carry build results out of a failed thread" % (adt, v["name"]))
        ctx.ok()


@rule("C20.R4", floor=2)
def c20_r4(ctx):
    """No success status for failed or cancelled rules: every status print is dominated by
    the Ok(Ok(_)) edges of join."""
    R = Roles(ctx.P)
    e = R.entry("build")
    j = e.calls_to(JOIN)[0]
    okok = e.edges_of_call_variant(j, "Ok")
    inner = e._call_origins(j, (("variant", "Ok"), ("field", 0)), frozenset())
    okok2 = e.edges_of_value_variant(inner, "Ok")
    prints = [c for c in e.calls if c.trait == "printer::Printer" and c.name == "print_single_banner_line"]
    ctx.need(prints, "status print calls")
    for p in prints:
        ctx.inst("status print", p.where)
        if e.dominated_by_edges(p.bb, okok) and e.dominated_by_edges(p.bb, okok2):
            ctx.ok()
        else:
            ctx.viol((e.id, "status-for-failed"), "a status line can be printed for a rule that did not finish successfully", p.where)
    for fn in ctx.P.fns.values():
        if fn.body.get("in_test") or fn is e:
            continue
        for c in fn.calls:
            if c.trait == "printer::Printer" and c.name == "print_single_banner_line":
                ctx.viol((fn.id, "status-elsewhere"), "status line printed outside the join loop of build", c.where)


@rule("C03.R4", floor=4)
def c03_r4(ctx):
    """Wiring: for each source index of each node exactly one channel is created; its
    receiver is pushed into the entry of the node being wired (outer loop variable); its
    sender into leaves[i] / nodes[i] where i is field 0 of the matched SourceIndex of this
    iteration, and the sub-index stored beside the sender is field 1 of that same Pair."""
    fs = [f for f in ctx.P.fns.values() if not f.body.get("in_test") and f.calls_to("std::sync::mpsc::channel")]
    ctx.need(len(fs) == 1, "the function that creates the channels")
    f = fs[0]
    ctx.saw(f)
    chs = f.calls_to("std::sync::mpsc::channel")
    ctx.inst("channel()", chs[0].where)
    if len(chs) != 1:
        ctx.viol((f.id, "channel-sites"), "channels are created at %d sites (one per dependence edge expected)" % len(chs), chs[1].where)
        return
    ch = chs[0]
    lps = [lp for lp in f.loops() if ch.bb in lp["body"]]
    if len(lps) != 2:
        ctx.viol((f.id, "wiring-loops"), "channel creation is not nested in (nodes x source indices)", ch.where)
        return
    inner = min(lps, key=lambda l: len(l["body"]))
    outer = max(lps, key=lambda l: len(l["body"]))
    if not f.every_iteration_calls(inner, [ch.bb]) or f.loop_exits(inner) or f.loop_exits(outer):
        ctx.viol((f.id, "edge-without-channel"), "some dependence edge gets no channel (the dependent would wait forever or not at all)", ch.where)
    S = f._call_origins(ch, (("field", 0),), frozenset())
    Rv = f._call_origins(ch, (("field", 1),), frozenset())

    def range_over_len(lp, coll_pred):
        for o in lp["iter"]:
            if o[0][0] != "agg" or not o[0][4].endswith("Range::Range"):
                return False
            rv = f.blocks[o[0][2]]["stmts"][o[0][3]]["rv"]
            if not (rv["ops"][0]["k"] == "const" and rv["ops"][0].get("bits") == "0"):
                return False
            ok = False
            for h in f.origins_of_operand(rv["ops"][1]):
                if h[0][0] == "call" and h[0][3].endswith("::len") and coll_pred(f.call_at[h[0][2]].args[0]):
                    ok = True
            if not ok:
                return False
        return True

    def idx_shape(op):
        """operand = index(_mut)(coll, i).tail  ->  (coll vars, index origins, tail steps)"""
        out = []
        for o in f.origins_of_operand(op):
            if o[0][0] == "call" and "Index" in o[0][3]:
                ix = f.call_at[o[0][2]]
                out.append((frozenset(f.vars_of_operand(ix.args[0])), frozenset(f.origins_of_operand(ix.args[1])), o[1:], ix))
            else:
                out.append((None, None, o, None))
        return out
    # the collections
    ret = [s for s in f.constructs("build::ChannelPack")]
    ctx.need(len(ret) == 1, "ChannelPack construction")
    names = ret[0][2]["kind"]["fields"]
    leaves_v = frozenset(f.vars_of_operand(ret[0][2]["ops"][names.index("leaves")]))
    nodes_v = frozenset(f.vars_of_operand(ret[0][2]["ops"][names.index("nodes")]))
    if f.dominated_by_blocks(outer["header"], [ret[0][0]]):
        # the pack is built first and wired in place (`pack.nodes[i].receivers.push(..)`): the two
        # tables are fields of one variable, which this reader does not take apart
        raise AnalysisError("idiom not recognised: %s builds the ChannelPack first and wires its fields in place" % f.id)
    def is_range_loop(lp):
        return bool(lp["iter"]) and all(o[0][0] == "agg" and o[0][4].endswith("Range::Range") for o in lp["iter"])
    if not is_range_loop(outer):
        # wiring written over iterators / side vectors instead of the two index loops: the
        # rule reads positions off index expressions and has nothing to read here
        raise AnalysisError("idiom not recognised: the channels in %s are not wired by index loops over the node table" % f.id)
    if not range_over_len(outer, lambda a: frozenset(f.vars_of_operand(a)) == nodes_v):
        ctx.viol((f.id, "outer-range"), "the outer wiring loop is not 0..nodes.len()", f.where(outer["header"]))
    oe = frozenset(outer["elem"])
    ie = frozenset(inner["elem"])

    def is_source_indices_of_this_node(a):
        sh = idx_shape(a)
        return len(sh) == 1 and sh[0][0] == nodes_v and sh[0][1] == oe and sh[0][2] == (("field", 0), ("field", "source_indices"))
    if not range_over_len(inner, is_source_indices_of_this_node):
        ctx.viol((f.id, "inner-range"), "the inner wiring loop is not 0..source_indices.len() of the node being wired", f.where(inner["header"]))
    # the SourceIndex examined
    si = None
    for bb in inner["body"]:
        info = f.switch_info(bb)
        if info and info["kind"] == "variant" and info.get("adt") == "sort::SourceIndex" and not f.is_drop_switch(bb):
            si = info
    ctx.need(si is not None, "match on the SourceIndex")
    si_org = si["origins"]
    ok_si = False
    for o in si_org:
        if o[0][0] == "call" and "Index" in o[0][3] and len(o) == 1:
            ix = f.call_at[o[0][2]]
            if is_source_indices_of_this_node(ix.args[0]) and frozenset(f.origins_of_operand(ix.args[1])) == ie:
                ok_si = True
    if not ok_si:
        ctx.viol((f.id, "wrong-source-index"), "the SourceIndex examined is not source_indices[k] of the node being wired for this iteration's k", f.where(si["bb"]))
    pair_e = f.edges_of_value_variant(si_org, "Pair")
    leaf_e = f.edges_of_value_variant(si_org, "Leaf")
    pushes = [p for p in f.calls_to("std::vec::Vec::<T, A>::push") if p.bb in inner["body"]]
    recv_push = []
    send_push = []
    for p in pushes:
        vo = f.origins_of_operand(p.args[1])
        tgt = idx_shape(p.args[0])
        if vo == Rv:
            ctx.inst("receiver push", p.where)
            if len(tgt) == 1 and tgt[0][0] == nodes_v and tgt[0][1] == oe and tgt[0][2] == (("field", 2),):
                recv_push.append(p)
                ctx.ok()
            elif len(tgt) == 1 and tgt[0][3] is None and all(o[0][0] == "var" and len(o) == 1 for o in f.vars_of_operand(p.args[0])) \
                    and f.vars_of_operand(p.args[0]) not in (nodes_v, leaves_v):
                # gathered in a local vector first and installed later: where it ends up is a second
                # step this rule does not follow
                raise AnalysisError("idiom not recognised: %s collects the receivers of a node in a local vector before giving them to the node" % f.id)
            else:
                ctx.viol((f.id, "receiver-misplaced"), "a receiver is not given to the node being wired", p.where)
        elif vo == S:
            ctx.inst("leaf sender push", p.where)
            want_i = frozenset(o + (("variant", "Leaf"), ("field", 0)) for o in si_org)
            if len(tgt) == 1 and tgt[0][0] == leaves_v and tgt[0][1] == want_i and tgt[0][2] == (("field", 1),) and f.dominated_by_edges(p.bb, leaf_e):
                send_push.append(p)
                ctx.ok()
            else:
                ctx.viol((f.id, "leaf-sender-misplaced"), "a sender is not given to the leaf named by this SourceIndex::Leaf", p.where)
        else:
            # tuple (sub_index, sender)
            agg = [o for o in vo if o[0][0] == "agg" and o[0][4] == "tuple"]
            if len(agg) == 1 and len(vo) == 1:
                rv = f.blocks[agg[0][0][2]]["stmts"][agg[0][0][3]]["rv"]
                a0 = f.origins_of_operand(rv["ops"][0])
                a1 = f.origins_of_operand(rv["ops"][1])
                if a1 == S:
                    ctx.inst("node sender push", p.where)
                    want_i = frozenset(o + (("variant", "Pair"), ("field", 0)) for o in si_org)
                    want_s = {o + (("variant", "Pair"), ("field", 1)) for o in si_org}
                    if a0 != want_s:
                        send_push.append(p)
                        ctx.viol((f.id, "stored-subindex"), "the sub-index stored beside the sender is not field 1 of this SourceIndex::Pair (is %s): the dependent would be sent the hash of another target of the producer" % sorted(map(fmt_origin, a0)), p.where)
                    elif not (len(tgt) == 1 and tgt[0][0] == nodes_v and tgt[0][1] == want_i and tgt[0][2] == (("field", 1),) and f.dominated_by_edges(p.bb, pair_e)):
                        ctx.viol((f.id, "node-sender-misplaced"), "a sender is not given to the producer named by this SourceIndex::Pair", p.where)
                    else:
                        send_push.append(p)
                        ctx.ok()
    if not recv_push or not f.every_iteration_calls(inner, [p.bb for p in recv_push]):
        ctx.viol((f.id, "receiver-dropped"), "on some path the receiver of a new channel is not kept (the producer's send would fail)", ch.where)
    if not send_push or not f.every_iteration_calls(inner, [p.bb for p in send_push]):
        ctx.viol((f.id, "sender-dropped"), "on some path the sender of a new channel is dropped (the dependent's recv would fail)", ch.where)


@rule("C05.R6", floor=5)
def c05_r6(ctx):
    """Every loop ends for a reason that can be named: each loop of a function reachable from
    build, clean or serve is a `for` over an iterator (left when `next` yields None) or one of
    the reviewed loops of `loops_reviewed.json` (with the reason it ends).  A loop of another
    kind that is not listed - a `while` / `loop` introduced by a change - is an open obligation:
    whether it can spin (e.g. retrying a file-system operation that keeps failing) is not
    decided here."""
    import json as _json
    import os as _os
    P = ctx.P
    R = Roles(P)
    with open(_os.path.join(_os.path.dirname(_os.path.abspath(__file__)), "loops_reviewed.json")) as fh:
        table = _json.load(fh)["loops"]
    roots = [R.entry("build").id, R.entry("clean").id]
    try:
        roots.append(R.entry("serve").id)
    except Exception:
        pass
    opened = []
    for fid in sorted(P.reachable_fns(roots)):
        f = P.fns.get(fid)
        if f is None or f.body.get("in_test") or f.kind == "promoted" or f.body["span"]["file"].endswith("system/fake.rs"):
            continue
        dom = f.dominators()
        heads = set()
        for a in f.live:
            for h in f.succ[a]:
                if h in dom.get(a, ()):
                    heads.add(h)
        it = {lp["header"] for lp in f.loops()}
        # (not loops of the program: the poisoned states of an async function's state machine,
        #  `assert(false, "resumed after completion / panic") -> self`)
        heads = {h for h in heads if not (f.blocks[h]["term"]["k"] == "assert" and f.succ[h] == [h]
                                          and str(f.blocks[h]["term"].get("msg", {}).get("text", "")).startswith("ResumedAfter"))}
        other = sorted(h for h in heads if h not in it)
        # cycles without a loop head (entered at two places - the `while let .. .await` of an async
        # state machine, which is re-entered through the resume switch): one per strongly connected
        # component that contains no head
        on_cycle = set()
        for b in f.live:
            seen, work = set(), list(f.succ[b])
            while work:
                x = work.pop()
                if x in seen:
                    continue
                seen.add(x)
                work.extend(f.succ[x])
            if b in seen:
                on_cycle.add(b)
        comps = []
        left = set(on_cycle)
        while left:
            b = min(left)
            fwd, work = set(), [b]
            while work:
                x = work.pop()
                if x in fwd:
                    continue
                fwd.add(x)
                work.extend(y for y in f.succ[x] if y in on_cycle)
            bwd, work = set(), [b]
            while work:
                x = work.pop()
                if x in bwd:
                    continue
                bwd.add(x)
                work.extend(y for y in f.pred[x] if y in on_cycle)
            comp = fwd & bwd
            comps.append(comp)
            left -= comp
        all_heads = {h for a in f.live for h in f.succ[a] if h in dom.get(a, ())}
        other += sorted(min(c) for c in comps if not (c & all_heads))
        for h in sorted(heads & it):
            ctx.inst("iterator loop in %s" % fid, f.where(h))
            ctx.ok()
        if not other:
            continue
        ctx.saw(f)
        allowed = table.get(fid, {}).get("count", 0)

        for k, h in enumerate(other):
            ctx.inst("other loop in %s" % fid, f.where(h))
            if k < allowed:
                ctx.ok()
            else:
                opened.append(("%s|loop" % fid, "a loop that is not a `for` over an iterator and is not in the reviewed table: what makes it end is not decided (the obligation is open, not evidence of a violation)", f.where(h)))
    if opened:
        ctx.open_obligations = opened
