"""Abstract evaluation of a per-character classifier (the base-62 decoder) over intervals of
code points.  Used by C15.R3/R4 (codec tables agree, foreign characters rejected) and by the
panic census (D5: an overflow assert inside the classifier cannot fail for any code point)."""
from lib.mir import AnalysisError


class NarrowedChar(Exception):
    pass


class _Split(Exception):
    def __init__(self, at):
        self.at = at


_INT_MAX = {"u8": 2 ** 8 - 1, "u16": 2 ** 16 - 1, "u32": 2 ** 32 - 1, "u64": 2 ** 64 - 1, "usize": 2 ** 64 - 1, "char": 0x10FFFF,
            "i32": 2 ** 31 - 1, "i64": 2 ** 63 - 1, "isize": 2 ** 63 - 1}
_INT_MIN = {"i32": -2 ** 31, "i64": -2 ** 63, "isize": -2 ** 63}


def _evaluate(dec):
    """Abstract evaluation of the per-character classifier: the character is the symbolic value
    c in [lo, hi]; locals hold c+k, constants or booleans; a comparison or overflow test whose
    outcome is not the same for the whole interval splits the interval.  Returns the same
    (info, table) as the match reader, plus the classes that are not plain digits."""
    start = None
    for lp in dec.loops():
        for bb in sorted(lp["body"]):
            for i, st in enumerate(dec.blocks[bb]["stmts"]):
                if st["k"] == "assign" and not st["place"]["proj"] and dec.local_ty(st["place"]["local"])["s"] == "char" \
                        and st["rv"]["k"] == "use" and st["rv"]["op"]["k"] in ("copy", "move") \
                        and any(pr.get("k") == "downcast" and pr.get("variant") == "Some" for pr in st["rv"]["op"]["place"]["proj"]) \
                        and dec.origins_of_operand(st["rv"]["op"]) == lp["elem"]:
                    start = (bb, i, st["place"]["local"], lp)
    if start is None:
        raise AnalysisError("anchor missing: the decoder's per-character classification")
    sbb, sidx, cl, lp = start
    passed, failing = set(), set()

    def run(lo, hi):
        env = {(cl, None): ("lin", 0)}

        def val(op):
            if op["k"] == "const":
                if op.get("bits") is None:
                    return None
                if op["ty"]["s"] == "bool":
                    return ("bool", op["bits"] == "1")
                return ("const", int(op["bits"]))
            pl = op["place"]
            key = None
            pr = [e for e in pl["proj"] if e["k"] != "deref"]
            if not pr:
                key = (pl["local"], None)
            elif len(pr) == 1 and pr[0]["k"] == "field":
                key = (pl["local"], pr[0]["i"])
            elif len(pr) == 2 and pr[0]["k"] == "downcast" and pr[1]["k"] == "field":
                key = (pl["local"], (pr[0].get("variant"), pr[1]["i"]))
            return env.get(key)

        def rng(v):
            if v[0] == "lin":
                return lo + v[1], hi + v[1]
            return v[1], v[1]

        def cmp(op, a, b):
            (alo, ahi), (blo, bhi) = rng(a), rng(b)
            # both sides are c+k or constants; at most one depends on c
            def uniform(f):
                r = {f(x, y) for (x, y) in ((alo, blo), (ahi, bhi))}
                return r
            f = {"Le": lambda x, y: x <= y, "Lt": lambda x, y: x < y, "Ge": lambda x, y: x >= y, "Gt": lambda x, y: x > y,
                 "Eq": lambda x, y: x == y, "Ne": lambda x, y: x != y}[op]
            if a[0] == "lin" and b[0] == "lin":
                return f(a[1], b[1])
            r = uniform(f)
            if op in ("Eq", "Ne") and lo != hi:
                # equality with a constant inside the interval: isolate that point
                lin, cst = (a, b) if a[0] == "lin" else (b, a)
                t = cst[1] - lin[1]
                if lo <= t <= hi:
                    raise _Split(t if t > lo else t + 1)
                return f(lo + lin[1], cst[1]) if a[0] == "lin" else f(cst[1], lo + lin[1])
            if len(r) == 1:
                return r.pop()
            # monotone comparison: find the threshold by bisection
            l2, h2 = lo, hi
            lin_first = a[0] == "lin"
            k = a[1] if lin_first else b[1]
            cst = b[1] if lin_first else a[1]
            first = f(lo + k, cst) if lin_first else f(cst, lo + k)
            while h2 - l2 > 1:
                m = (l2 + h2) // 2
                if (f(m + k, cst) if lin_first else f(cst, m + k)) == first:
                    l2 = m
                else:
                    h2 = m
            raise _Split(h2)

        bb, idx0 = sbb, sidx + 1
        steps = 0
        while True:
            steps += 1
            if steps > 400:
                raise AnalysisError("idiom not recognised: the character classifier of %s does not end" % dec.id)
            b = dec.blocks[bb]
            for st in b["stmts"][idx0:]:
                if st["k"] != "assign":
                    continue
                pl, rv = st["place"], st["rv"]
                if pl["proj"]:
                    continue
                key = (pl["local"], None)
                for k2 in [k3 for k3 in env if k3[0] == pl["local"]]:
                    env.pop(k2, None)
                if rv["k"] == "aggregate" and rv["kind"]["k"] == "adt" and rv["kind"]["adt"].endswith("FromHumanReadableError"):
                    return ("invalid" if rv["kind"]["variant"] == "InvalidCharacter" else "other-error:" + rv["kind"]["variant"], None)
                if rv["k"] == "aggregate" and rv["kind"]["k"] == "adt" and rv["kind"].get("adt") in ("std::option::Option", "std::result::Result"):
                    # Some(x) / None / Ok(x): remember the variant and the payload
                    env[(pl["local"], "variant")] = ("const", rv["kind"]["idx"])
                    for j, o2 in enumerate(rv["ops"]):
                        v = val(o2)
                        if v is not None:
                            env[(pl["local"], (rv["kind"]["variant"], j))] = v
                    continue
                if rv["k"] == "discriminant":
                    p2 = rv["place"]
                    if not [e for e in p2["proj"] if e["k"] != "deref"]:
                        v = env.get((p2["local"], "variant"))
                        if v is not None:
                            env[key] = v
                    continue
                if rv["k"] == "use":
                    v = val(rv["op"])
                    if v is not None:
                        env[key] = v
                    # moving a whole Option / tuple moves what is known about its parts
                    o2 = rv["op"]
                    if o2["k"] in ("copy", "move") and not o2["place"]["proj"]:
                        for k2, v2 in list(env.items()):
                            if k2[0] == o2["place"]["local"] and k2[1] is not None:
                                env[(pl["local"], k2[1])] = v2
                elif rv["k"] == "cast":
                    v = val(rv["op"])
                    if v is not None and v[0] in ("lin", "const"):
                        tmax = _INT_MAX.get(rv["ty"]["s"])
                        if tmax is None:
                            continue
                        rl, rh = rng(v)
                        if rh > tmax and rl <= tmax:
                            raise _Split(tmax + 1 - (v[1] if v[0] == "lin" else 0))
                        if rl > tmax:
                            raise NarrowedChar(dec.where(bb))
                        env[key] = v
                elif rv["k"] == "binop":
                    a, c2 = val(rv["a"]), val(rv["b"])
                    op = rv["op"]
                    if a is None or c2 is None:
                        continue
                    base = op.replace("WithOverflow", "").replace("Unchecked", "")
                    if base in ("Add", "Sub") and a[0] in ("lin", "const") and c2[0] in ("lin", "const"):
                        if base == "Add":
                            if a[0] == "lin" and c2[0] == "lin":
                                continue
                            r = ("lin", a[1] + c2[1]) if "lin" in (a[0], c2[0]) else ("const", a[1] + c2[1])
                        else:
                            if c2[0] == "lin":
                                if a[0] == "lin":
                                    r = ("const", a[1] - c2[1])
                                else:
                                    continue
                            else:
                                r = (a[0], a[1] - c2[1])
                        ty = dec.local_ty(pl["local"])["s"]
                        ity = ty.strip("()").split(",")[0].strip()
                        tmax, tmin = _INT_MAX.get(ity), _INT_MIN.get(ity, 0)
                        rl, rh = rng(r)
                        if "WithOverflow" in op:
                            if tmax is None:
                                continue
                            if rl < tmin <= rh:
                                raise _Split(tmin - r[1])
                            if rl <= tmax < rh:
                                raise _Split(tmax + 1 - r[1])
                            env[(pl["local"], 0)] = r
                            env[(pl["local"], 1)] = ("bool", rl < tmin or rh > tmax)
                        else:
                            env[key] = r
                    elif base in ("Le", "Lt", "Ge", "Gt", "Eq", "Ne") and a[0] in ("lin", "const") and c2[0] in ("lin", "const"):
                        env[key] = ("bool", cmp(base, a, c2))
                elif rv["k"] == "unop" and rv["op"] == "Not":
                    v = val(rv["a"])
                    if v is not None and v[0] == "bool":
                        env[key] = ("bool", not v[1])
            idx0 = 0
            t = b["term"]
            k = t["k"]
            if k == "goto":
                bb = t["target"]
            elif k == "drop":
                bb = t["target"]
            elif k == "assert":
                v = val(t["cond"])
                if v is not None and v[0] == "bool" and v[1] != t["expected"]:
                    failing.add(bb)
                    return ("panic", dec.where(bb))
                if v is not None and v[0] == "bool":
                    passed.add(bb)
                bb = t["target"]
            elif k == "switch":
                v = val(t["discr"])
                if v is None:
                    raise AnalysisError("idiom not recognised: the character classifier of %s branches on something that is not a function of the character (%s)" % (dec.id, dec.where(bb)))
                if v[0] == "bool":
                    x = 1 if v[1] else 0
                elif v[0] == "const":
                    x = v[1]
                else:
                    pts = sorted(int(tv) - v[1] for tv, _ in t["targets"])
                    inside = [p_ for p_ in pts if lo <= p_ <= hi]
                    if inside and lo != hi:
                        p_ = inside[0]
                        raise _Split(p_ if p_ > lo else p_ + 1)
                    x = lo + v[1]
                nxt = t["otherwise"]
                for tv, d in t["targets"]:
                    if int(tv) == x:
                        nxt = d
                bb = nxt
            elif k == "call" and t["callee"].get("path") == "std::ops::Try::branch" and t["args"] and t["args"][0]["k"] in ("copy", "move") \
                    and not t["args"][0]["place"]["proj"] and not t["dest"]["proj"] and t.get("target") is not None:
                # `x?`: Ok/Some -> Continue(payload), Err/None -> Break
                a = t["args"][0]["place"]["local"]
                dl = t["dest"]["local"]
                for k2 in [k3 for k3 in env if k3[0] == dl]:
                    env.pop(k2, None)
                va = env.get((a, "variant"))
                aty = dec.local_ty(a)["s"]
                if va is not None:
                    is_res = aty.startswith("std::result::Result")
                    good = (va[1] == 0) if is_res else (va[1] == 1)
                    env[(dl, "variant")] = ("const", 0 if good else 1)
                    pay = env.get((a, ("Ok" if is_res else "Some", 0)))
                    if good and pay is not None:
                        env[(dl, ("Continue", 0))] = pay
                bb = t["target"]
            elif k == "call":
                tracked = [val(a) for a in t["args"]]
                tracked = [v for v in tracked if v is not None and v[0] in ("lin", "const")]
                if tracked:
                    c = dec.call_at[bb]
                    if c.name in ("mul", "mul_assign", "add", "add_assign") or "Mul" in (c.trait or "") or "Add" in (c.trait or ""):
                        return ("digit", tracked[0])
                    raise AnalysisError("idiom not recognised: the character (or a value computed from it) is handed to %s in the classifier of %s" % (c.path, dec.id))
                if t.get("target") is None:
                    return ("panic", dec.where(bb))
                bb = t["target"]
            elif k == "return":
                raise AnalysisError("idiom not recognised: the classifier of %s returns without a verdict for the character" % dec.id)
            elif k == "unreachable":
                return ("unreachable", None)
            else:
                raise AnalysisError("idiom not recognised: terminator %s in the classifier of %s" % (k, dec.id))
            if bb == lp["header"]:
                raise AnalysisError("idiom not recognised: a character reaches the next iteration of %s without being classified" % dec.id)

    cells = []
    work = [(0, 0x10FFFF)]
    n = 0
    while work:
        lo, hi = work.pop()
        n += 1
        if n > 5000:
            raise AnalysisError("idiom not recognised: the character classifier of %s needs too many intervals" % dec.id)
        try:
            r = run(lo, hi)
        except _Split as sp:
            at = sp.at
            if not (lo < at <= hi):
                raise AnalysisError("internal: bad split %s of [%s,%s]" % (at, lo, hi))
            work.append((lo, at - 1))
            work.append((at, hi))
            continue
        cells.append((lo, hi, r))
    cells.sort()
    table = {}
    other = []
    for lo, hi, (kind, v) in cells:
        if kind == "digit":
            if hi - lo > 4096:
                other.append((lo, hi, "digit-wide", v))
                continue
            for ch in range(lo, hi + 1):
                table[ch] = ch + v[1] if v[0] == "lin" else v[1]
        elif kind != "invalid":
            other.append((lo, hi, kind, v))
    info = {"bb": sbb, "by_intervals": True, "cells": len(cells), "other": other, "asserts_safe": passed - failing}
    return info, table


def decoder_table_by_intervals(dec):
    c = getattr(dec, "_charclass", None)
    if c is None:
        try:
            c = ("ok", _evaluate(dec))
        except (AnalysisError, NarrowedChar) as e:
            c = ("err", e)
        dec._charclass = c
    if c[0] == "err":
        raise c[1]
    return c[1]


def asserts_proved_safe(f):
    """Blocks of f ending in an assert that the interval evaluation showed to hold for every
    code point (empty if f has no per-character classifier)."""
    if not any("std::str::Chars" in l["ty"]["s"] for l in f.body["locals"]):
        return set()
    try:
        info, _ = decoder_table_by_intervals(f)
    except (AnalysisError, NarrowedChar):
        return set()
    return info["asserts_safe"]


