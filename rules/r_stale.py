"""C18.R2: a stale file state is never used for the mtime shortcut (typestate over
summaries, DESIGN.md B4)."""
from engine import rule
from roles import Roles, SYS, sys_calls
from common import WorkRoles
from lib.mir import AnalysisError, fmt_origin


def prod(P):
    return [f for f in P.fns.values() if not f.body.get("in_test") and f.kind != "promoted" and not f.body.get("derived")
            and not f.body["span"]["file"].endswith("system/real.rs")]


def _param_roots(f, op):
    """Parameter indices an operand derives from (through fields / iteration / clones)."""
    return {o[0][1] for o in f.origins_of_operand(op) if o[0][0] == "param"}


def _ac_guard_edges(f):
    """Edges that mean `this target's resolution is AlreadyCorrect`, including the true edge
    of a bool that is set only under such an edge."""
    ac = f.edges_variant(lambda info, nm, oth, rest: info.get("adt") == "blob::FileResolution" and nm == "AlreadyCorrect")
    if not ac:
        return set()
    out = set(ac)
    for l, defs in f.defs.items():
        if f.local_ty(l)["s"] != "bool" or not f.is_user(l):
            continue
        ok = True
        trues = []
        for (kind, bb, idx, place, rv) in defs:
            if kind != "assign" or rv["k"] != "use" or rv["op"]["k"] != "const":
                ok = False
                break
            if rv["op"].get("bits") == "1":
                trues.append(bb)
        if ok and trues and all(f.dominated_by_edges(b, ac) for b in trues):
            for bb in f.live:
                info = f.switch_info(bb)
                if info and info["kind"] in ("value", "local") and info.get("place", {}).get("local", info.get("local")) == l:
                    out |= f._bool_edges(info, True)
    return out


def summaries(P):
    W = WorkRoles(P)
    shortcut_ids = {f.id for f in W.shortcut_fns()}
    fns = prod(P)
    restores = {f.id: set() for f in fns}        # param indices whose path may receive a different file
    shortcut = {f.id: {} for f in fns}           # param index -> witness call (shortcut used before any command)
    executes = {f.id: False for f in fns}

    def exec_blocks(f):
        out = [c.bb for c in sys_calls(f, "execute_command")]
        for c in f.calls:
            for t in P.local_targets(c):
                if executes.get(t):
                    out.append(c.bb)
        return out

    changed = True
    n = 0
    while changed and n < 30:
        changed = False
        n += 1
        for f in fns:
            ex = exec_blocks(f)
            if (bool(sys_calls(f, "execute_command")) or any(executes.get(t) for c in f.calls for t in P.local_targets(c))) and not executes[f.id]:
                executes[f.id] = True
                changed = True
            guard = None
            for c in f.calls:
                # restore primitives: destination of a rename, path of a create_file
                if c.trait == SYS and c.name in ("rename", "create_file"):
                    a = c.args[2] if c.name == "rename" else c.args[1]
                    for k in _param_roots(f, a):
                        if k not in restores[f.id]:
                            restores[f.id].add(k)
                            changed = True
                for t in P.local_targets(c):
                    if t in restores:
                        for k in restores[t]:
                            if k - 1 < len(c.args):
                                for r in _param_roots(f, c.args[k - 1]):
                                    if r not in restores[f.id]:
                                        restores[f.id].add(r)
                                        changed = True
                    # closures / coroutines created and run inside (download_file's async block)
                # shortcut uses not preceded by a command on every path
                uses = []
                if any(t in shortcut_ids for t in P.local_targets(c)):
                    uses.append((2, c))           # (arg index of the assumed state, call)
                for t in P.local_targets(c):
                    if t in shortcut and t not in shortcut_ids:
                        for k in shortcut[t]:
                            uses.append((k - 1, c))
                for (ai, uc) in uses:
                    if ai >= len(uc.args):
                        continue
                    if ex and f.dominated_by_blocks(uc.bb, ex) and uc.bb not in ex:
                        continue                    # a command ran first: new write, new tick
                    if guard is None:
                        guard = _ac_guard_edges(f)
                    if guard and f.dominated_by_edges(uc.bb, guard):
                        continue                    # only for targets left untouched
                    for r in _param_roots(f, uc.args[ai]):
                        if r not in shortcut[f.id]:
                            shortcut[f.id][r] = uc
                            changed = True
        # coroutine bodies: lift their restores to the enclosing fn's parameters
        for f in fns:
            if f.kind == "closure" and restores[f.id]:
                site = P.closure_sites.get(f.id)
                if site is None:
                    continue
                pf, bb, idx, rv = site
                if pf.id not in restores:
                    continue
                # any restore in the closure through a captured path: map captured operands to parent params
                for c in f.calls:
                    if c.trait == SYS and c.name in ("rename", "create_file"):
                        a = c.args[2] if c.name == "rename" else c.args[1]
                        for o in f.origins_of_operand(a):
                            lifted = P.lift_once(f, {o})
                            for (cf, cbb, sub) in lifted or []:
                                for so in sub:
                                    if so[0][0] == "param" and so[0][1] not in restores[cf.id]:
                                        restores[cf.id].add(so[0][1])
                                        changed = True
    return restores, shortcut, executes


@rule("C18.R2", floor=3)
def c18_r2(ctx):
    """A stale file state is never used for the shortcut: once a call may have moved a
    different file into a blob's path (local restore or download), no function that uses
    the mtime shortcut with that blob's remembered states may run on it, unless a command
    ran in between (new write, new tick) or the use is restricted to targets whose
    resolution is AlreadyCorrect."""
    P = ctx.P
    restores, shortcut, executes = summaries(P)
    shortcut_ids_all = {f.id for f in WorkRoles(P).shortcut_fns()}
    n_rest = sum(1 for k, v in restores.items() if v)
    n_short = sum(1 for k, v in shortcut.items() if v)
    for fid, v in sorted(restores.items()):
        if v:
            ctx.inst("may put a different file at a path of parameter %s: %s" % (sorted(v), fid))
    for fid, v in sorted(shortcut.items()):
        if v:
            ctx.inst("uses the shortcut with states of parameter %s: %s" % (sorted(v), fid))
    ctx.need(n_rest >= 1 and n_short >= 2, "restore and shortcut summaries")
    for f in prod(P):
        ex = [c.bb for c in sys_calls(f, "execute_command")] + [c.bb for c in f.calls for t in P.local_targets(c) if executes.get(t)]
        for a in f.calls:
            for ta in P.local_targets(a):
                for ka in restores.get(ta, ()):
                    if ka - 1 >= len(a.args):
                        continue
                    xa = f.vars_of_operand(a.args[ka - 1])
                    if not xa:
                        continue
                    for u in f.calls:
                        if u is a or u.bb not in f.reach_after(a.bb):
                            continue
                        for tu in P.local_targets(u):
                            # (a shortcut function called right here: its assumed state is argument 3)
                            for ku, wit in (list(shortcut.get(tu, {}).items()) + ([(3, u)] if tu in shortcut_ids_all else [])):
                                if ku - 1 >= len(u.args):
                                    continue
                                xu = f.vars_of_operand(u.args[ku - 1])
                                # (the same object: the very same variable, or the `.path` and the
                                #  `.file_state` of one FileInfo)
                                same_info = bool(xu) and {o[:1] for o in xu} == {o[:1] for o in xa} and \
                                    all(o[1:] in ((), (("field", "path"),), (("field", "file_state"),)) for o in xu | xa)
                                if xu != xa and not same_info:
                                    continue
                                # a command between them on every path?
                                r = f.reach_after(a.bb, avoid_blocks=ex)
                                if u.bb not in r:
                                    ctx.ok()
                                    continue
                                # same loop element only: a restore of element i followed by a shortcut on element j of the next iteration is a different path
                                if any(o[0][0] not in ("var", "param") for o in xa):
                                    continue
                                ctx.viol((f.id, "stale-state-shortcut", a.path.split("::")[-1] + "->" + u.path.split("::")[-1]),
                                         "%s may move a different file (from the cache or a download, keeping its old mtime) into a target path, and %s then hashes that path through the mtime shortcut with the pre-restore file state: under a coarse clock the remembered hash of the previous content is returned, announced to dependents and stored in the table" % (a.path, u.path),
                                         u.where, restore=a.where, shortcut_site=wit.where)
    if not ctx.violations:
        ctx.ok()


@rule("C18.R3", floor=1)
def c18_r3(ctx):
    """A file that replaced another one gets a new remembered state: in the function that
    finishes a rule without running its command, every iteration that does not establish
    `this target's resolution is AlreadyCorrect` stores a fresh FileState for the target before
    the next iteration (or leaves with an error) - the store may not depend on anything else,
    in particular not on the two files' modified times being different."""
    P = ctx.P
    n = 0
    for f in prod(P):
        ac = _ac_guard_edges(f)
        if not ac:
            continue
        stores = []
        for b in f.blocks:
            if b["cleanup"]:
                continue
            for i, st in enumerate(b["stmts"]):
                if st["k"] == "assign" and st["place"]["proj"]:
                    fl = [e for e in st["place"]["proj"] if e["k"] == "field"]
                    if fl and fl[-1].get("name") == "file_state" and "blob::FileState" in fl[-1].get("ty", ""):
                        stores.append(b["i"])
        if not stores:
            continue
        lps = [lp for lp in f.loops() if any(s in lp["body"] for s in stores)]
        if not lps:
            continue
        lp = min(lps, key=lambda l: len(l["body"]))
        n += 1
        ctx.saw(f)
        ctx.inst("state refresh in %s" % f.id, f.where(stores[0]))
        # an iteration = from the Some edge of the iterator to the header again
        start = [d for (s_, d) in [lp["some"]]] if lp.get("some") else [x for x in f.succ[lp["next"].bb]]
        r = f.reach(start, avoid_blocks=stores, avoid_edges=_closed(f, ac))
        if lp["header"] in r:
            ctx.viol((f.id, "replaced-file-keeps-old-state"), "an iteration can finish without storing a fresh file state although the target was not established to be AlreadyCorrect (e.g. when the restored file has the same modified time as the one it replaced): the table keeps the old file's hash next to that modified time, and the shortcut returns it for the new file", f.where(stores[0]))
        else:
            ctx.ok()
    ctx.need(n, "a function refreshing file states under an AlreadyCorrect test")


def _closed(f, edges):
    """edges plus the true/false edges of bool flags implied by them (as dominated_by_edges does)."""
    out = set(edges)
    flags = f._flag_switches()
    for _ in range(4):
        grew = False
        for l, (sets, switches) in flags.items():
            for val in (True, False):
                add = set()
                for info in switches:
                    add |= f._bool_edges(info, val)
                if not sets[val] or add <= out:
                    continue
                if all(b not in f.reach([0], avoid_edges=out) for b in sets[val]):
                    out |= add
                    grew = True
        if not grew:
            break
    return out


@rule("C18.R4", floor=1)
def c18_r4(ctx):
    """A rule's remembered file states leave the table while the rule is being worked on: the
    states handed out with a blob are *removed* from the table (they come back through
    insert_blob only for a rule that finished), so a rule that fails or is cancelled leaves
    no (hash, mtime) pair behind for files it may have replaced."""
    P = ctx.P
    n = 0
    for f in prod(P):
        if not f.body["span"]["file"].endswith("current.rs"):
            continue
        for c in f.calls_to("blob::Blob::from_paths"):
            n += 1
            ctx.saw(f)
            ctx.inst("blob handed out by %s" % f.id, c.where)
            # the state-supplying closure
            cl = None
            if len(c.args) > 1 and c.args[1]["k"] in ("copy", "move"):
                cid = f.local_ty(c.args[1]["place"]["local"]).get("closure")
                cl = P.fns.get(cid)
            if cl is None:
                raise AnalysisError("idiom not recognised: the states given to Blob::from_paths in %s do not come from a closure literal" % f.id)
            ro = cl.origins_of_place({"local": 0, "proj": []})
            took = [o for o in ro if o[0][0] == "call" and o[0][3].split("::")[-1] in ("remove", "remove_entry")]
            kept = [o for o in ro if o[0][0] == "call" and o[0][3].split("::")[-1] in ("get", "get_mut", "get_key_value", "index")]
            if kept or not took:
                ctx.viol((f.id, "states-copied-not-taken"), "the file states handed out with a blob stay in the table: a rule that then fails keeps its old (hash, mtime) pairs although it may have replaced the files, and the next build trusts them", c.where)
            else:
                ctx.ok()
    ctx.need(n, "the function handing out blobs from the file-state table")


@rule("C18.R5", floor=1)
def c18_r5(ctx):
    """Different modification times give different timestamps: in the function that turns a
    SystemTime into the number the table stores, the whole seconds are scaled by exactly as many
    units as the sub-second part counts in (`as_secs() * 1_000_000 + subsec_micros()`): with a
    smaller factor two different times share a number and the shortcut takes one file for
    another."""
    P = ctx.P
    units = {"subsec_micros": 1_000_000, "subsec_millis": 1_000, "subsec_nanos": 1_000_000_000}
    n = 0
    for f in P.fns.values():
        if f.body.get("in_test") or f.kind == "promoted" or f.body.get("derived"):
            continue
        secs = [c for c in f.calls if c.path == "std::time::Duration::as_secs"]
        subs = [c for c in f.calls if c.path.startswith("std::time::Duration::subsec_")]
        if not secs or not subs or "u64" not in f.body.get("output", {}).get("s", ""):
            continue
        n += 1
        ctx.saw(f)
        ctx.inst("timestamp computed in %s" % f.id, secs[0].where)
        want = {units.get(c.name) for c in subs}
        if len(want) != 1 or None in want:
            raise AnalysisError("idiom not recognised: %s mixes sub-second units" % f.id)
        want = want.pop()
        so = f._call_origins(secs[0], (), frozenset())
        facs = []
        for b in f.blocks:
            if b["cleanup"]:
                continue
            for st in b["stmts"]:
                if st["k"] == "assign" and st["rv"]["k"] in ("binop", "checked_binop") and st["rv"]["op"] in ("Mul", "MulWithOverflow"):
                    a, b2 = st["rv"]["a"], st["rv"]["b"]
                    for x, y in ((a, b2), (b2, a)):
                        if x["k"] == "const" and x.get("bits") is not None and y["k"] in ("copy", "move") and f.origins_of_operand(y) == so:
                            facs.append(int(x["bits"]))
        if not facs:
            raise AnalysisError("idiom not recognised: %s does not scale as_secs() by a constant" % f.id)
        for k in facs:
            if k != want:
                ctx.viol((f.id, "timestamp-scale"), "whole seconds are scaled by %d while the sub-second part counts in 1/%d s: two different modification times can get the same number, so a file rewritten at such a moment is taken for the recorded one (and filed in the cache under the recorded hash)" % (k, want), secs[0].where)
            else:
                ctx.ok()
    ctx.need(n, "the SystemTime -> timestamp conversion")


@rule("C18.R6", floor=1)
def c18_r6(ctx):
    """The refresh after a resolution is not optional: in the handler, every way from "no target
    needs rebuilding" to an Ok result passes through the call that re-reads the targets'
    states after resolution (it is the only place where a target restored from the cache gets
    a new (hash, mtime) entry) - whether the rule has dependents, for one, may not decide it."""
    from r_work import handler_fn, _needs_rebuild_calls, _inline_rebuild_verdict
    h, hcall, node = handler_fn(ctx)
    ctx.saw(h)
    preds = _needs_rebuild_calls(ctx, h)
    false_edges = set()
    for p in preds:
        false_edges |= h.bool_edges_of_call(p, False)
    if not preds:
        inl = _inline_rebuild_verdict(ctx, h)
        ctx.need(inl, "the needs-rebuild verdict in the handler")
        false_edges = inl["false"]
    rf = h.calls_to("blob::Blob::get_file_state_vec_after_resolution")
    ctx.need(rf, "the state refresh after resolution in the handler")
    ctx.inst("refresh after resolution", rf[0].where)
    r = h.reach([x for (_, x) in false_edges], avoid_blocks=[c.bb for c in rf])
    oks = [(bb, idx) for (bb, idx, rv, pl) in h.constructs("std::result::Result", "Ok") if pl["local"] == 0 and bb in r]
    if oks:
        ctx.viol((h.id, "refresh-after-resolution-skipped"), "a rule that needs no rebuilding can finish without its targets' states being read again after the resolution: a target that was restored from the cache keeps the table entry of the file it replaced, and the shortcut later returns that file's hash for it", h.where(oks[0][0], oks[0][1]))
    else:
        ctx.ok()


@rule("C18.R7", floor=1)
def c18_r7(ctx):
    """The number a modification time is stored and compared as is one-to-one: it is
    `1_000_000 * as_secs() + subsec_micros()` (or the `as_micros()` / `as_nanos()` total) of the
    time since the epoch - every accessor of the duration used once, the seconds scaled by the
    number of sub-second units.  A term counted twice, a coarser unit or a wrong scale maps two
    different times to one number, and the shortcut then takes a rewritten file for the old one."""
    fs = [f for f in ctx.P.fns.values() if f.id.endswith("::get_timestamp") and not f.body.get("in_test")
          and f.body.get("output", {}).get("s", "").startswith("std::result::Result<u64")]
    ctx.need(len(fs) == 1, "the function that turns a SystemTime into a number")
    f = fs[0]
    ctx.saw(f)
    acc = sorted(c.name for c in f.calls if c.path.startswith("std::time::Duration::") and c.name != "duration_since")
    ctx.inst("timestamp encoding: %s" % "+".join(acc), f.where(0))
    muls = [s["rv"] for b in f.blocks if not b["cleanup"] for s in b["stmts"]
            if s["k"] == "assign" and s["rv"]["k"] == "binop" and s["rv"]["op"] in ("Mul", "MulWithOverflow")]
    scales = sorted({x.get("bits") for m in muls for x in (m["a"], m["b"]) if x["k"] == "const"})
    good = {("as_secs", "subsec_micros"): ["1000000"], ("as_secs", "subsec_nanos"): ["1000000000"],
            ("as_micros",): [], ("as_nanos",): []}
    if not acc:
        raise AnalysisError("idiom not recognised: %s uses no accessor of Duration" % f.id)
    known = {"as_secs", "subsec_micros", "subsec_millis", "subsec_nanos", "as_micros", "as_millis", "as_nanos"}
    if not set(acc) <= known:
        raise AnalysisError("idiom not recognised: %s reads the duration through %s" % (f.id, sorted(set(acc) - known)))
    if tuple(acc) not in good:
        ctx.viol((f.id, "timestamp-not-one-to-one"), "the stored modification time is computed from %s: a part of the time is counted twice or dropped, so two different modification times can get the same number (the shortcut then keeps the old hash of a rewritten file)" % " + ".join(acc), f.where(0))
    elif scales != good[tuple(acc)]:
        ctx.viol((f.id, "timestamp-scale"), "the seconds are scaled by %s, not by the number of sub-second units: different times collide" % (scales or "nothing"), f.where(0))
    else:
        ctx.ok()
