"""Role-based anchors: find the program entities the rules talk about by what they do,
not by what they are called (a rename must not disturb a rule)."""
from lib.mir import AnalysisError, erase_generics

SPAWN = "std::thread::spawn"
RECV = "std::sync::mpsc::Receiver::<T>::recv"
SEND = "std::sync::mpsc::Sender::<T>::send"
JOIN = "std::thread::JoinHandle::<T>::join"
SYS = "system::System"

SYSTEM_OBSERVERS = {"open", "is_dir", "is_file", "list_dir", "get_modified", "is_executable"}
SYSTEM_MUTATORS = {"create_file", "create_dir", "rename", "set_is_executable", "execute_command"}


def sys_calls(fn, *names):
    return [c for c in fn.calls if c.trait == SYS and (not names or c.name in names)]


class Roles:
    def __init__(self, P):
        self.P = P
        self._cache = {}

    def _memo(self, key, f):
        if key not in self._cache:
            self._cache[key] = f()
        return self._cache[key]

    # -- threads
    def spawns(self):
        """[(parent Fn, spawn CallSite, closure Fn)]"""
        def go():
            out = []
            for fn in self.P.fns.values():
                if fn.body.get("in_test"):
                    continue
                for cs in fn.calls_to(SPAWN):
                    org = fn.origins_of_operand(cs.args[0])
                    for o in org:
                        if o[0][0] == "agg" and o[0][4] == "closure":
                            # find the closure body id at that site
                            bb, idx = o[0][2], o[0][3]
                            rv = fn.blocks[bb]["stmts"][idx]["rv"]
                            out.append((fn, cs, self.P.fns[rv["kind"]["body"]]))
                        else:
                            raise AnalysisError("thread::spawn argument is not a closure literal at %s" % cs.where)
            return out
        return self._memo("spawns", go)

    def entry(self, name):
        """build / clean / run / serve entry points, found by role."""
        def go():
            r = {}
            spawners = {}
            for (pf, cs, cl) in self.spawns():
                spawners.setdefault(pf.id, []).append(cl)
            for fid, cls in spawners.items():
                pf = self.P.fns[fid]
                reach = self.P.reachable_fns([fid])
                execs = any(self.exec_calls(self.P.fns[f]) for f in reach if f in self.P.fns)
                if execs:
                    r["build"] = pf
                else:
                    r["clean"] = pf
            for fn in self.P.fns.values():
                if fn.kind == "closure" or fn.body.get("in_test"):
                    continue
                if "build" in r and any(r["build"].id in self.P.local_targets(c) for c in fn.calls) and fn.id != "main":
                    r["run"] = fn
                if fn.kind != "closure" and any(self.P.fns[x].calls_to("warp::serve") for x in self.P.reachable_fns([fn.id])) \
                        and fn.id != "main":
                    r["serve"] = fn
            # the async body of serve
            return r
        r = self._memo("entries", go)
        if name not in r:
            raise AnalysisError("anchor missing: entry point '%s'" % name)
        return r[name]

    def exec_calls(self, fn):
        return sys_calls(fn, "execute_command")

    def drain_fn(self):
        def go():
            c = [f for f in self.P.fns.values() if f.calls_to(RECV) and not f.body.get("in_test")]
            if len(c) != 1:
                raise AnalysisError("anchor missing: expected exactly one function calling Receiver::recv, found %d" % len(c))
            return c[0]
        return self._memo("drain", go)

    def build_closures(self):
        """(leaf closure, node closure) of build: the node closure calls the drain fn."""
        def go():
            b = self.entry("build")
            cls = [cl for (pf, cs, cl) in self.spawns() if pf is b]
            d = self.drain_fn()
            node = [c for c in cls if any(d.id in self.P.local_targets(x) for x in c.calls)]
            leaf = [c for c in cls if c not in node]
            if len(node) != 1 or len(leaf) != 1:
                raise AnalysisError("anchor missing: build must spawn one leaf and one node closure (found %d/%d)" % (len(leaf), len(node)))
            return leaf[0], node[0]
        return self._memo("bcl", go)

    def clean_closure(self):
        c = self.entry("clean")
        cls = [cl for (pf, cs, cl) in self.spawns() if pf is c]
        if len(cls) != 1:
            raise AnalysisError("anchor missing: clean must spawn exactly one kind of closure")
        return cls[0]

    def handler_calls(self, closure):
        """Calls in a thread closure to local functions that (transitively) touch the System."""
        out = []
        for cs in closure.calls:
            tg = self.P.local_targets(cs)
            if not tg:
                continue
            reach = self.P.reachable_fns(tg)
            if any(sys_calls(self.P.fns[f]) for f in reach):
                out.append(cs)
        return out

    def reaches_exec(self, fid):
        return any(self.exec_calls(self.P.fns[f]) for f in self.P.reachable_fns([fid]))

    # -- production functions reachable from the entry points
    def production(self):
        def go():
            roots = [self.entry("build").id, self.entry("clean").id]
            for k in ("run", "serve"):
                try:
                    roots.append(self.entry(k).id)
                except AnalysisError:
                    pass
            if "main" in self.P.fns:
                roots.append("main")
            return self.P.reachable_fns(roots)
        return self._memo("prod", go)

    def fns_calling(self, pred):
        return [f for f in self.P.fns.values() if not f.body.get("in_test") and any(pred(c) for c in f.calls)]
