"""A10: panic obligations.  Census of panic-capable sites reachable from a root, local
discharge rules D1-D5, and the reviewed table rules/panic_reviewed.json."""
import json
import os
from lib.mir import erase_generics, fmt_origin

PANIC_CALLS = ("core::panicking::", "std::rt::begin_panic", "std::panicking::", "core::option::expect_failed", "core::result::unwrap_failed")
UNWRAPS = {"std::option::Option::<T>::unwrap", "std::option::Option::<T>::expect", "std::result::Result::<T, E>::unwrap",
           "std::result::Result::<T, E>::expect", "std::result::Result::<T, E>::unwrap_err", "std::result::Result::<T, E>::expect_err"}
INDEX_TRAITS = ("std::ops::Index::index", "std::ops::IndexMut::index_mut")
IGNORED_ASSERTS = ("misaligned", "null_deref")
# library calls documented to panic on an argument out of range (an index past the end, two
# slices of different length): each is an obligation like an indexing expression
LIB_PANICS = {"std::vec::Vec::<T, A>::remove": "remove", "std::vec::Vec::<T, A>::insert": "insert",
              "std::vec::Vec::<T, A>::swap_remove": "swap_remove", "std::vec::Vec::<T, A>::split_off": "split_off",
              "std::slice::<impl [T]>::copy_from_slice": "copy_from_slice", "std::slice::<impl [T]>::clone_from_slice": "clone_from_slice",
              "std::slice::<impl [T]>::split_at": "split_at", "std::slice::<impl [T]>::split_at_mut": "split_at_mut",
              "std::slice::<impl [T]>::swap": "swap", "core::str::<impl str>::split_at": "split_at",
              "std::collections::VecDeque::<T, A>::remove": "remove"}


def sites_in(f):
    """[(kind, bb, descr dict)] of panic-capable sites of one body (non-cleanup)."""
    out = []
    for b in f.blocks:
        if b["cleanup"]:
            continue
        t = b["term"]
        if t["k"] == "assert":
            k = t["msg"]["k"]
            if k in IGNORED_ASSERTS:
                continue
            if k == "other" and t["msg"].get("text", "").startswith("ResumedAfter"):
                continue        # coroutine resume checks inserted by the compiler
            out.append(("assert:" + k, b["i"], t))
        elif t["k"] == "call":
            c = f.call_at[b["i"]]
            p = c.path
            if p.startswith(PANIC_CALLS):
                out.append(("panic", b["i"], t))
            elif p in UNWRAPS:
                out.append(("unwrap:" + c.name, b["i"], t))
            elif p in INDEX_TRAITS:
                out.append(("index", b["i"], t))
            elif p in LIB_PANICS or p.replace("core::", "std::", 1) in LIB_PANICS or p.replace("alloc::", "std::", 1) in LIB_PANICS:
                nm = LIB_PANICS.get(p) or LIB_PANICS.get(p.replace("core::", "std::", 1)) or LIB_PANICS[p.replace("alloc::", "std::", 1)]
                out.append(("libcall:" + nm, b["i"], t))
    return out


def _names_of(f, op):
    """Human-stable description of an index / operand: user variable names, constants,
    parameter numbers, or the callee that produced it."""
    out = set()
    for o in f.vars_of_operand(op) if op["k"] != "const" else f.origins_of_operand(op):
        r = o[0]
        if r[0] == "var":
            out.add(f.names.get(r[1], "_") + "".join("." + str(st[1]) for st in o[1:] if st[0] == "field"))
        elif r[0] == "param":
            out.add("param%d" % r[1] + "".join("." + str(st[1]) for st in o[1:] if st[0] == "field"))
        elif r[0] == "const":
            out.add(str(r[1]))
        elif r[0] == "call":
            out.add(r[3].split("::")[-1] + "()")
        elif r[0] in ("binop", "unop"):
            out.add(r[4])
        else:
            out.add(r[0])
    return "+".join(sorted(out))[:80]


def key_of(f, kind, bb):
    """Stable key of a site: function, kind, what is indexed / unwrapped (type) and by what
    (variable names) - never a line or block number."""
    t = f.blocks[bb]["term"]
    if kind.startswith("assert:"):
        m = t["msg"]
        if m["k"] == "bounds_check":
            # the indexed place: find the statement using index local right after
            return "%s|bounds|[%s]" % (f.id, _names_of(f, m["index"]))
        if m["k"] == "overflow":
            return "%s|overflow:%s|%s,%s" % (f.id, m["op"], _names_of(f, m["a"]), _names_of(f, m["b"]))
        return "%s|%s" % (f.id, m["k"])
    c = f.call_at[bb]
    if kind == "panic":
        return "%s|panic|%s" % (f.id, _panic_context(f, bb))
    if kind.startswith("unwrap") or kind.startswith("libcall"):
        return "%s|%s|%s" % (f.id, kind, _names_of(f, c.args[0]))
    if kind == "index":
        full = c.callee.get("full", c.path)
        coll = full.split(" as ")[0].lstrip("<")
        if len(coll) > 60:
            coll = coll[:57] + "..."
        return "%s|index|%s|%s[%s]" % (f.id, coll, _names_of(f, c.args[0]), _names_of(f, c.args[1]))
    return "%s|%s" % (f.id, kind)


def _panic_context(f, bb):
    """What guards an explicit panic: the enum variant edge(s) it sits under."""
    names = []
    for b in f.live:
        info = f.switch_info(b)
        if info and info["kind"] == "variant" and not f.is_drop_switch(b):
            nm = f.variant_names(info.get("adt"))
            for v, d in info["targets"]:
                if f.dominated_by_edges(bb, {(b, d)}):
                    names.append("%s::%s" % ((info.get("adt") or "?").split("::")[-1], nm.get(v, v)))
            if f.dominated_by_edges(bb, {(b, info["otherwise"])}):
                names.append("%s::_" % (info.get("adt") or "?").split("::")[-1])
    return "/".join(names[-3:])


# ------------------------------------------------------------------ discharge rules

def discharge(P, f, kind, bb):
    """Returns the name of the local rule that discharges the site, or None."""
    t = f.blocks[bb]["term"]
    if kind == "assert:bounds_check":
        m = t["msg"]
        # D1: constant index < constant length
        li, ii = m["len"], m["index"]
        ic = _const_of(f, ii)
        lc = _const_of(f, li)
        if ic is not None and lc is not None and ic < lc:
            return "D1 constant index %d < constant length %d" % (ic, lc)
        # D3: (x % K) indexing an array of length K
        if lc is not None:
            for o in f.origins_of_operand(ii):
                pass
        # D2: index compared `<` against the length of the same slice by a dominating edge
        if _guarded_lt_len(f, bb, ii, li):
            return "D2 index < len of the same slice on a dominating edge"
        if ic is not None and _len_gt_const_guard(f, bb, li, ic):
            return "D2 constant index below a dominating length test"
        return None
    if kind == "assert:overflow":
        m = t["msg"]
        # D4: counter + 1 on usize/u64
        if m["op"] == "Add":
            for (a, b) in ((m["a"], m["b"]), (m["b"], m["a"])):
                if b["k"] == "const" and b.get("bits") == "1" and b["ty"]["s"] in ("usize", "u64") and a["k"] in ("copy", "move"):
                    return "D4 counter + 1 on %s (needs 2^64 steps)" % b["ty"]["s"]
        # D7: x - c where x runs over `s..` with a constant start s >= c (a for-range element or a
        # counter that starts at s and is only ever incremented)
        if m["op"] == "Sub" and m["b"]["k"] == "const" and m["b"].get("bits") is not None and m["a"]["k"] in ("copy", "move"):
            cval = int(m["b"]["bits"])
            ao = f.origins_of_operand(m["a"])
            good = bool(ao)
            for o in ao:
                ok1 = False
                # element of Range { start: const >= c, .. }
                if o[0][0] == "agg" and o[0][4].endswith("Range::Range") and any(st[0] == "next" for st in o[1:]):
                    rv = f.blocks[o[0][2]]["stmts"][o[0][3]]["rv"]
                    st0 = rv["ops"][0]
                    if st0["k"] == "const" and st0.get("bits") is not None and int(st0["bits"]) >= cval:
                        ok1 = True
                if o[0][0] == "const" and len(o) == 1:
                    try:
                        ok1 = int(str(o[0][1]).split("_")[0]) >= cval
                    except ValueError:
                        ok1 = False
                if o[0][0] == "binop" and o[0][4] in ("AddWithOverflow", "Add"):
                    st = f.blocks[o[0][2]]["stmts"][o[0][3]]["rv"]
                    # counter + positive constant: stays >= its start (its other origins are checked too)
                    if st["b"]["k"] == "const" and f.origins_of_operand(st["a"]) == ao:
                        ok1 = True
                if not ok1:
                    good = False
            if good:
                return "D7 minuend runs upward from a constant start >= %d" % cval
        # D5: arithmetic on a character inside a per-character classifier, evaluated over
        # intervals of code points (rules/charclass.py): the assert holds for every code point
        from charclass import asserts_proved_safe
        if bb in asserts_proved_safe(f):
            return "D5 holds for every code point (interval evaluation of the classifier)"
        return None
    if kind == "index":
        d6 = _leading_ascii_prefix_slice(P, f, bb)
        if d6:
            return d6
        d8 = _vec_index_below_len(P, f, bb)
        if d8:
            return d8
    return None


def _vec_index_below_len(P, f, bb):
    """D8: `v[i]` / `v[i - c]` (through Index::index) where a dominating edge says `i < v.len()`
    for the same v and i is not written between that test and the use."""
    c = f.call_at[bb]
    if len(c.args) != 2 or c.args[1]["k"] not in ("copy", "move"):
        return None
    if f.local_ty(c.args[1]["place"]["local"])["s"] != "usize":
        return None
    coll = f.vars_of_operand(c.args[0])
    if not coll:
        return None
    io = f.origins_of_operand(c.args[1])
    iv = f.vars_of_operand(c.args[1])
    base_vars = None
    if iv and all(o[0][0] == "var" and len(o) == 1 for o in iv):
        base_vars = iv
    else:
        # i - c
        for o in io:
            if o[0][0] == "binop" and o[0][4] in ("SubWithOverflow", "Sub"):
                st = f.blocks[o[0][2]]["stmts"][o[0][3]]["rv"]
                if st["b"]["k"] == "const":
                    bv = f.vars_of_operand(st["a"])
                    if bv and all(x[0][0] == "var" and len(x) == 1 for x in bv):
                        base_vars = bv if base_vars in (None, bv) else False
                        continue
            base_vars = False
    if not base_vars:
        return None

    def lt_len(d):
        if d["op"] != "Lt" or f.vars_of_operand(d["a"]) != base_vars:
            return False
        bo = f.origins_of_operand(d["b"])
        return bool(bo) and all(o[0][0] == "call" and o[0][3].split("::")[-1] == "len" and len(o) == 1 and
                                f.vars_of_operand(f.call_at[o[0][2]].args[0]) == coll for o in bo)
    edges = f.cmp_edges(lt_len, True)
    if not edges or not f.dominated_by_edges(bb, edges):
        return None
    var_locals = {o[0][1] for o in base_vars}
    W = {wbb for l in var_locals for (kind, wbb, idx, place, payload) in f.defs.get(l, ()) if not place["proj"]}
    if bb in W:
        return None
    targets = [b for (a, b) in edges]
    for w in W:
        if w in f.reach(targets, avoid_blocks=[bb]) and bb in f.reach_after(w, avoid_edges=edges):
            return None
    return "D8 index (minus a constant) below len() of the same vector on a dominating edge"


def _leading_ascii_prefix_slice(P, f, bb):
    """D6: `s[n..]` / `s[..n]` where n = s.chars().take_while(|c| *c == <ASCII char>).count():
    n one-byte characters lead the string, so n <= len and n is a character boundary."""
    c = f.call_at[bb]
    if len(c.args) != 2 or "str" not in (c.self_ty or "") and "String" not in (c.self_ty or ""):
        return None
    svars = f.vars_of_operand(c.args[0])
    for o in f.origins_of_operand(c.args[1]):
        if o[0][0] != "agg" or not o[0][4].split("::")[-1] in ("RangeFrom", "RangeTo"):
            return None
        rv = f.blocks[o[0][2]]["stmts"][o[0][3]]["rv"]
        for x in f.origins_of_operand(rv["ops"][0]):
            if not (x[0][0] == "call" and len(x) == 1 and x[0][3] == "std::iter::Iterator::count"):
                return None
            cnt = f.call_at[x[0][2]]
            src = f.origins_of_operand(cnt.args[0])
            if not src or not all(len(y) >= 2 and y[-1] == ("truncate", "take_while") and y[-2] == ("iter", "chars") for y in src):
                return None
            # the take_while call and its closure
            tw = None
            for c2 in f.calls:
                if c2.path == "std::iter::Iterator::take_while" and f._call_origins(c2, (), frozenset()) == src:
                    tw = c2
            if tw is None:
                return None
            # same string
            ch = [c3 for c3 in f.calls if c3.name == "chars" and f._call_origins(c3, (), frozenset()) == f.origins_of_operand(tw.args[0])]
            if not ch or f.vars_of_operand(ch[0].args[0]) != svars:
                return None
            cid = None
            a1 = tw.args[1]
            if a1["k"] in ("copy", "move") and not a1["place"]["proj"]:
                cid = f.local_ty(a1["place"]["local"]).get("closure")
            cl = P.fns.get(cid)
            if cl is None:
                return None
            # closure: returns (char == ASCII const), nothing else
            consts = []
            for b in cl.blocks:
                if b["cleanup"]:
                    continue
                if b["term"]["k"] not in ("return", "goto"):
                    return None
                for st in b["stmts"]:
                    if st["k"] == "assign" and st["rv"]["k"] == "binop":
                        if st["rv"]["op"] != "Eq":
                            return None
                        for side in (st["rv"]["a"], st["rv"]["b"]):
                            if side["k"] == "const" and side["ty"]["s"] == "char":
                                consts.append(int(side.get("bits", "999999")))
            if len(consts) != 1 or consts[0] >= 128:
                return None
    return "D6 offset = number of leading one-byte characters of the same string"


def _const_of(f, op):
    if op["k"] == "const":
        return int(op["bits"]) if "bits" in op else None
    org = f.origins_of_operand(op)
    vals = set()
    for o in org:
        if o[0][0] == "const" and len(o) == 1:
            try:
                vals.add(int(str(o[0][1]).split("_")[0]))
            except ValueError:
                return None
        else:
            return None
    return vals.pop() if len(vals) == 1 else None


def _same_len_source(f, len_op, other_len_op):
    return f.origins_of_operand(len_op) == f.origins_of_operand(other_len_op)


def _guarded_lt_len(f, bb, idx_op, len_op):
    """some dominating edge means idx < n where n = len() of the same slice (n taken once
    before the loop, slice immutable: it is a parameter / shared borrow)."""
    iv = f.vars_of_operand(idx_op)
    if not iv or any(o[0][0] != "var" for o in iv):
        return False
    # which slice is being indexed: PtrMetadata(copy _slice) in `len`
    lo = f.origins_of_operand(len_op)
    slice_roots = set()
    for o in lo:
        if o[0][0] == "unop" and o[0][4] == "PtrMetadata":
            st = f.blocks[o[0][2]]["stmts"][o[0][3]]["rv"]
            slice_roots |= f.origins_of_operand(st["a"])
    if not slice_roots or not all(r[0][0] == "param" for r in slice_roots):
        return False

    def lt_len(d):
        if d["op"] != "Lt":
            return False
        if f.vars_of_operand(d["a"]) != iv:
            return False
        for o in f.origins_of_operand(d["b"]):
            if o[0][0] == "call" and "len" in o[0][3]:
                ln = f.call_at[o[0][2]]
                if f.origins_of_operand(ln.args[0]) == slice_roots:
                    continue
            return False
        return True
    edges = f.cmp_edges(lt_len, True)
    if not f.dominated_by_edges(bb, edges):
        return False
    # no write to the index variable between the guard and the use
    var_locals = {o[0][1] for o in iv}
    W = set()
    for l in var_locals:
        for (kind, wbb, idx, place, payload) in f.defs.get(l, ()):
            if not place["proj"]:
                W.add(wbb)
    if bb in W:
        return False
    targets = [b for (a, b) in edges]
    for w in W:
        if w in f.reach(targets, avoid_blocks=[bb]) and bb in f.reach_after(w, avoid_edges=edges):
            return False
    return True


def _len_gt_const_guard(f, bb, len_op, ic):
    """a dominating edge says len != 0 (for index 0)"""
    if ic != 0:
        return False
    lo = f.origins_of_operand(len_op)

    def len_zero(d):
        for x, y in ((d["a"], d["b"]), (d["b"], d["a"])):
            if y["k"] == "const" and y.get("bits") == "0":
                for o in f.origins_of_operand(x):
                    if o[0][0] == "call" and "len" in o[0][3]:
                        return True
        return False
    edges = f.cmp_edges(lambda d: d["op"] == "Eq" and len_zero(d), False) | f.cmp_edges(lambda d: d["op"] == "Ne" and len_zero(d), True)
    return f.dominated_by_edges(bb, edges)


def census(P, roots):
    reach = P.reachable_fns(roots)
    out = []
    for fid in sorted(reach):
        f = P.fns[fid]
        if f.body.get("in_test") or f.kind == "promoted":
            continue
        for (kind, bb, t) in sites_in(f):
            out.append((f, kind, bb))
    return out


def load_reviewed(here):
    with open(os.path.join(here, "panic_reviewed.json")) as fh:
        return json.load(fh)


# ------------------------------------------------------------------ supporting facts

def _is_call(o, frag):
    return o[0][0] == "call" and frag in o[0][3]


def _canon(f, op, depth=0):
    """Origins with indexing call sites replaced by (collection, index) shapes, so that two
    evaluations of `nodes[i].0.xs` compare equal."""
    out = set()
    for o in f.vars_of_operand(op):
        r = o[0]
        if r[0] == "call" and "Index" in r[3] and depth < 4:
            ix = f.call_at[r[2]]
            out.add((("idx", frozenset(_canon(f, ix.args[0], depth + 1)), frozenset(_canon(f, ix.args[1], depth + 1))),) + o[1:])
        else:
            out.add(o)
    return out


def support_range_over_len(P, f, kind, bb):
    c = f.call_at[bb]
    coll = f.vars_of_operand(c.args[0])
    ccoll = _canon(f, c.args[0])
    io = f.origins_of_operand(c.args[1])
    for lp in f.loops():
        if io != lp["elem"]:
            continue
        for o in lp["iter"]:
            if o[0][0] != "agg" or not o[0][4].endswith("Range::Range"):
                return False
            rv = f.blocks[o[0][2]]["stmts"][o[0][3]]["rv"]
            lo, hi = rv["ops"]
            if not (lo["k"] == "const" and lo.get("bits") == "0"):
                return False
            ok = False
            for h in f.origins_of_operand(hi):
                if _is_call(h, "::len"):
                    ln = f.call_at[h[0][2]]
                    if f.vars_of_operand(ln.args[0]) == coll or f.origins_of_operand(ln.args[0]) == f.origins_of_operand(c.args[0]) \
                            or _canon(f, ln.args[0]) == ccoll:
                        ok = True
            if not ok:
                return False
        # the collection itself is not resized inside the loop
        for x in f.calls:
            if x.bb in lp["body"] and erase_generics(x.path).startswith("std::vec::Vec::") and x.name in ("push", "pop", "clear", "truncate", "remove", "swap_remove", "drain", "insert", "retain", "append", "split_off") and x.args:
                if f.vars_of_operand(x.args[0]) == coll and not any(st[0] in ("index",) or (st[0] == "field") for o2 in f.origins_of_operand(x.args[0]) for st in o2[1:] if o2[0][0] == "call"):
                    xo = f.origins_of_operand(x.args[0])
                    if not any(_is_call(o2, "Index") for o2 in xo):
                        return False
        return True
    return False


def support_len_equality_guard(P, f, kind, bb):
    c = f.call_at[bb]

    def lens_equal(d):
        a, b = f.origins_of_operand(d["a"]), f.origins_of_operand(d["b"])
        return all(_is_call(o, "::len") for o in a | b) and a and b
    e = f.cmp_edges(lambda d: d["op"] == "Ne" and lens_equal(d), False) | f.cmp_edges(lambda d: d["op"] == "Eq" and lens_equal(d), True)
    return f.dominated_by_edges(bb, e)


def support_windows_2(P, f, kind, bb):
    """the indexed value is an element of `windows(2)` and the constant index is < 2"""
    m = f.blocks[bb]["term"]["msg"]
    ic = _const_of(f, m["index"])
    if ic is None or ic >= 2:
        return False
    host = f
    if f.kind == "closure":
        site = P.closure_sites.get(f.id)
        if site is None:
            return False
        host = site[0]
    w = [c for c in host.calls if c.path == "core::slice::<impl [T]>::windows" and c.args[1].get("bits") == "2"]
    return len(w) == 1


def support_rem_by_len(P, f, kind, bb):
    m = f.blocks[bb]["term"]["msg"]
    lc = _const_of(f, m["len"])
    for o in f.origins_of_operand(m["index"]):
        if not _is_call(o, "unwrap"):
            return False
        uw = f.call_at[o[0][2]]
        for o2 in f.origins_of_operand(uw.args[0]):
            if not _is_call(o2, "to_u32"):
                return False
            tu = f.call_at[o2[0][2]]
            for o3 in f.origins_of_operand(tu.args[0]):
                if not _is_call(o3, "Rem::rem"):
                    return False
                rm = f.call_at[o3[0][2]]
                if not (rm.args[1]["k"] == "const" and lc is not None and int(rm.args[1]["bits"]) == lc):
                    return False
    return True


def support_size_guard(P, f, kind, bb):
    m = f.blocks[bb]["term"]["msg"]
    lc = _const_of(f, m["len"])

    def veclen_le(d):
        return d["b"]["k"] == "const" and lc is not None and int(d["b"].get("bits", -1)) <= lc and any(_is_call(o, "::len") for o in f.origins_of_operand(d["a"]))
    e = f.cmp_edges(lambda d: d["op"] == "Gt" and veclen_le(d), False) | f.cmp_edges(lambda d: d["op"] == "Le" and veclen_le(d), True)
    return f.dominated_by_edges(bb, e)


def support_thread_error_kinds(P, f, kind, bb):
    from roles import Roles
    R = Roles(P)
    leaf, node = R.build_closures()
    allowed = {"WorkError", "Canceled", "SenderError", "ReceiverError"}
    # every BuildError a thread can build, in its closure or in anything it calls (a helper, a
    # `From` impl used to convert a WorkError, ..)
    for fid in sorted(P.reachable_fns([leaf.id, node.id]) | {R.drain_fn().id}):
        g = P.fns.get(fid)
        if g is None or g.body.get("in_test"):
            continue
        for (b2, i2, rv, pl) in g.constructs("build::BuildError"):
            if rv["kind"]["variant"] not in allowed:
                return False
    return True


def support_position_of_same_vector(P, f, kind, bb):
    """the index is the Some payload of `v.iter().position(..)` on the very vector the call is
    made on, and the call sits under that Some edge"""
    c = f.call_at[bb]
    io = f.origins_of_operand(c.args[1])
    if not io:
        return False
    vec = {tuple(st for st in o if st[0] not in ("iter", "adapt")) for o in f.origins_of_operand(c.args[0])}
    for o in io:
        if ("adapt", "enumerate") in o and o[-1] == ("field", 0) and any(st[0] == "next" for st in o):
            # the counter of `v.iter().enumerate()` over the same vector
            k = o.index(("adapt", "enumerate"))
            if {tuple(st for st in o[:k] if st[0] not in ("iter", "adapt"))} != vec:
                return False
            continue
        if not (o[0][0] == "call" and o[0][3].endswith("::position") and o[1:] == (("variant", "Some"), ("field", 0))):
            return False
        pc = f.call_at[o[0][2]]
        src = {tuple(st for st in x if st[0] not in ("iter", "adapt")) for x in f.origins_of_operand(pc.args[0])}
        if src != vec or not f.dominated_by_edges(bb, f.edges_of_call_variant(pc, "Some")):
            return False
    return True


SUPPORTS = {
    "position-of-same-vector": support_position_of_same_vector,
    "range-over-len": support_range_over_len,
    "len-equality-guard": support_len_equality_guard,
    "windows-2": support_windows_2,
    "rem-by-len": support_rem_by_len,
    "size-guard": support_size_guard,
    "thread-error-kinds": support_thread_error_kinds,
}


def relaxed_key(f, kind, bb):
    """(kind, indexed / unwrapped type) - survives renames of variables and moves of the
    expression into another function."""
    t = f.blocks[bb]["term"]
    if kind.startswith("assert:"):
        m = t["msg"]
        if m["k"] == "bounds_check":
            lc = _const_of(f, m["len"])
            return "bounds|%s" % ("array[%d]" % lc if lc is not None else "slice")
        if m["k"] == "overflow":
            return "overflow:%s" % m["op"]
        return kind
    c = f.call_at[bb]
    if kind == "index":
        full = c.callee.get("full", c.path)
        return "index|" + full.split(" as ")[0].lstrip("<")[:80]
    if kind.startswith("unwrap"):
        return "%s|%s" % (kind, _names_of(f, c.args[0]).split(".")[-1])
    return kind


def judge(P, roots, here):
    """Returns (rows, problems, needs_review): rows = [(fn, kind, bb, key, verdict)];
    problems = violations [(key, message, site)]; needs_review = undischarged obligations that
    are no evidence of a violation (reported as CHECK-ERROR)."""
    table = load_reviewed(here)
    rev = {e["key"]: e for e in table["sites"]}
    was_discharged = set(table.get("discharged_on_pinned_tree", []))
    used = {}
    seen_discharged = set()
    rows = []
    problems = []
    review = []
    pending = []
    for (f, kind, bb) in census(P, roots):
        key = key_of(f, kind, bb)
        d = discharge(P, f, kind, bb)
        if d:
            seen_discharged.add(key)
            rows.append((f, kind, bb, key, "discharged: " + d))
            continue
        if key in was_discharged:
            rows.append((f, kind, bb, key, "GUARD-LOST"))
            problems.append((key + "|guard-lost", "a panic-capable site that a dominating guard made safe on the pinned tree is no longer guarded (%s)" % kind, f.where(bb)))
            continue
        e = rev.get(key)
        if e is None:
            pending.append((f, kind, bb, key))
            continue
        used[key] = used.get(key, 0) + 1
        if used[key] > e["count"]:
            pending.append((f, kind, bb, key))
            continue
        if e.get("support"):
            fn = SUPPORTS[e["support"]]
            try:
                ok = fn(P, f, kind, bb)
            except Exception as ex:  # noqa
                ok = False
            if not ok:
                rows.append((f, kind, bb, key, "SUPPORT-FAILED " + e["support"]))
                problems.append((key + "|support", "the structural fact supporting the reviewed invariant (%s) no longer holds: %s" % (e["support"], e["invariant"]), f.where(bb)))
                continue
        rows.append((f, kind, bb, key, "reviewed: " + e["invariant"]))
    # sites without an exact entry: a reviewed site that moved (helper extraction, renamed
    # variables) keeps its kind and type - match against reviewed entries that lost their site
    free = {}
    for k2, e in rev.items():
        n = e["count"] - used.get(k2, 0)
        if n > 0:
            parts = k2.split("|")
            rk = None
            if parts[1] == "index":
                rk = "index|" + parts[2]
            elif parts[1] == "bounds":
                rk = "bounds"
            elif parts[1].startswith("overflow"):
                rk = parts[1]
            elif parts[1].startswith("unwrap"):
                rk = parts[1]
            elif parts[1] == "panic":
                rk = "panic"
            elif parts[1].startswith("libcall"):
                rk = parts[1]
            if rk:
                free[rk] = free.get(rk, 0) + n
    matched_at = {}
    for (f, kind, bb, key) in pending:
        rk = relaxed_key(f, kind, bb)
        # one source site inlined into several callers is one site
        site = (kind, f.where(bb))
        if site in matched_at:
            rows.append((f, kind, bb, key, matched_at[site]))
            continue
        cand = None
        for fk in free:
            if free[fk] > 0 and (rk == fk or rk.startswith(fk) or fk.startswith(rk.split("|")[0]) and rk.split("|")[0] in ("bounds",) or
                                 (rk.startswith("index|") and fk.startswith("index|") and rk[6:60] == fk[6:60])):
                cand = fk
                break
        if cand is not None:
            free[cand] -= 1
            rows.append((f, kind, bb, key, "reviewed (site moved or renamed; matched by kind and type)"))
            matched_at[site] = "reviewed (site moved or renamed; matched by kind and type)"
            continue
        # an explicit unwrap that *replaces* a reviewed panic-capable site of the same function
        # (an index turned into `iter.next().unwrap()`) is a changed obligation, not a new one
        fn_prefix = key.split("|")[0] + "|"
        replaced = any(k2.startswith(fn_prefix) and e2["count"] - used.get(k2, 0) > 0 for k2, e2 in rev.items()) or \
            any(k2.startswith(fn_prefix) and k2 not in seen_discharged for k2 in was_discharged)
        if (kind == "panic" or kind.startswith("unwrap")) and replaced and kind != "panic":
            rows.append((f, kind, bb, key, "NEEDS-REVIEW"))
            review.append((key, "a panic-capable site (%s) took the place of a reviewed one in this function: the obligation is open (not evidence of a violation)" % kind, f.where(bb)))
        elif kind == "panic" and any(w in str((f.blocks[bb]["term"].get("span") or {}).get("macro") or "") for w in ("assert", "unreachable")):
            # an assertion (assert!, debug_assert!, assert_eq!, unreachable!) states an invariant; whether
            # it always holds is exactly what cannot be read off the code here
            rows.append((f, kind, bb, key, "NEEDS-REVIEW"))
            review.append((key, "a new assertion is reachable: whether the asserted condition always holds is not decided (the obligation is open, not evidence of a violation)", f.where(bb)))
        elif kind == "panic" or kind.startswith("unwrap"):
            rows.append((f, kind, bb, key, "UNREVIEWED"))
            problems.append((key, "a new explicit panic site (%s) is reachable: the code can abort where it used to return" % kind, f.where(bb)))
        else:
            rows.append((f, kind, bb, key, "NEEDS-REVIEW"))
            review.append((key, "a panic-capable site (%s) is reachable that no local rule discharges and the reviewed table does not list: the obligation is open (not evidence of a violation)" % kind, f.where(bb)))
    return rows, problems, review
