"""Thorough tier: (i) test-cfg who-may-call check, (ii) syn cross-check of the extractor,
(iii) seeded mutants of the property on scratch copies."""
import json
import os
import subprocess
import tempfile
import shutil
import glob

CROSS_NAMES = [".rename", ".create_file", ".create_dir", ".set_is_executable", ".execute_command", ".is_file", ".is_dir",
               ".list_dir", ".get_modified", ".is_executable", ".send", ".recv", ".join", ".write_rule_history",
               ".read_rule_history", ".restore_file", ".back_up_file_with_ticket", ".back_up_file", ".take_blob", ".insert_blob",
               ".to_file", ".write_all", ".read_to_end", ".get_file_state_vec", ".get_ticket", ".sort", ".push", ".pop", ".remove",
               ".contains", ".take", ".visit", ".input_str", ".input_ticket", ".compare", ".get_info"]


def syn_counts(here, src):
    exe = os.path.join(here, ".cache", "syncount-target", "release", "syncount")
    if not os.path.exists(exe):
        r = subprocess.run(["cargo", "build", "--release", "--offline"], cwd=os.path.join(here, "engine", "syncount"),
                           env=dict(os.environ, CARGO_TARGET_DIR=os.path.join(here, ".cache", "syncount-target"), CARGO_NET_OFFLINE="true"),
                           stdout=subprocess.PIPE, stderr=subprocess.STDOUT, text=True)
        if r.returncode != 0:
            return None, "cannot build syncount: " + r.stdout[-300:]
    files = sorted(glob.glob(os.path.join(src, "src", "*.rs")) + glob.glob(os.path.join(src, "src", "system", "*.rs")))
    files = [f for f in files if not f.endswith("fake.rs")]
    r = subprocess.run([exe] + files, stdout=subprocess.PIPE, stderr=subprocess.PIPE, text=True)
    if r.returncode != 0:
        return None, "syncount failed: " + r.stderr[-300:]
    raw = json.loads(r.stdout)
    out = {}
    for k, v in raw.items():
        d = {}
        for name, n in v.items():
            if name.endswith("!"):
                continue
            last = "." + name.lstrip(".").split("::")[-1]
            d[last] = d.get(last, 0) + n
        out[os.path.relpath(k, src)] = d
    return out, None


def mir_counts(P):
    """Calls per file and method name in the facts *as extracted* (before the loader's
    normalisation, which adds synthetic calls when it spells out combinators)."""
    import json
    out = {}
    path = getattr(P.facts, "path", None)
    if path:
        with open(path) as fh:
            raw = json.load(fh)
        for b in raw["bodies"]:
            if b.get("in_test") or b["kind"] == "promoted" or b.get("derived"):
                continue
            for blk in b["blocks"]:
                if blk["cleanup"]:
                    continue
                t = blk["term"]
                if t["k"] != "call":
                    continue
                sp = t["span"]
                if sp.get("exp"):
                    continue
                nm = "." + (t["callee"].get("name") or "")
                out.setdefault(sp["file"], {})
                out[sp["file"]][nm] = out[sp["file"]].get(nm, 0) + 1
        return out
    for f in P.fns.values():
        if f.body.get("in_test") or f.kind == "promoted" or f.body.get("derived"):
            continue
        for c in f.calls:
            if c.span.get("exp"):
                continue
            nm = "." + (c.name or "")
            file = c.span["file"]
            out.setdefault(file, {})
            out[file][nm] = out[file].get(nm, 0) + 1
    return out


def cross_check(P, here, src):
    """Returns (summary dict, list of mismatches)."""
    sc, err = syn_counts(here, src)
    if sc is None:
        return {"error": err}, [err]
    mc = mir_counts(P)
    mism = []
    compared = 0
    for file, counts in sorted(sc.items()):
        for nm in CROSS_NAMES:
            a = counts.get(nm, 0)
            b = mc.get(file, {}).get(nm, 0)
            if a or b:
                compared += 1
                if a != b:
                    mism.append("%s %s: syntax tree has %d call(s), extracted MIR has %d" % (file, nm, a, b))
    return {"files": len(sc), "names_compared": compared, "mismatches": mism}, mism


def test_cfg_check(Pt):
    """In the test configuration (which adds remove_file/remove_dir to System and the fake
    system), no production item may reach a test-only primitive."""
    bad = []
    n = 0
    for f in Pt.fns.values():
        if f.body.get("in_test") or f.kind == "promoted":
            continue
        if f.body["span"]["file"].endswith("real.rs") or f.body["span"]["file"].endswith("fake.rs"):
            continue
        # functions that only exist under cfg(test) but live outside test modules (helpers
        # like FileState::new, open_inbox_file) are test-only by construction: they are not
        # in the production facts; skip bodies whose id is unknown there
        n += 1
        for c in f.calls:
            if c.trait == "system::System" and c.name in ("remove_file", "remove_dir"):
                bad.append((f.id, c.where, c.name))
            if c.path.startswith("system::fake::"):
                bad.append((f.id, c.where, c.path))
    return n, bad


def run_mutants(here, pid, index):
    res = []
    for m in index.get("mutants", []):
        if pid not in m["expect"]:
            continue
        patch = os.path.join(here, m["patch"])
        r = subprocess.run([os.path.join(here, "tools", "mutant.sh"), patch, pid], stdout=subprocess.PIPE, stderr=subprocess.STDOUT, text=True)
        line = [l for l in r.stdout.splitlines() if l.startswith(pid + " ")]
        if "PATCH-DOES-NOT-APPLY" in r.stdout or not line:
            res.append({"mutant": m["patch"], "result": "skipped (does not apply to this tree)"})
            continue
        detected = "rc=1" in line[0]
        res.append({"mutant": m["patch"], "result": "detected" if detected else "MISSED", "report": line[0][:300]})
    return res
