"""Rules about hashing and the base-62 codec (C15), saved state (C16), the cache server
(C19), banners (C20.R1/R3) and the stale-file-state typestate (C18.R2)."""
from engine import rule
from roles import Roles, SYS, sys_calls, JOIN
from common import WorkRoles, effects, call_effects, mutating
from strings import _const_bytes_of, format_of_operand
from lib.mir import AnalysisError, fmt_origin, erase_generics


def is_call(o, path=None):
    return o[0][0] == "call" and (path is None or erase_generics(o[0][3]) == erase_generics(path))


def prod(P):
    return [f for f in P.fns.values() if not f.body.get("in_test") and f.kind != "promoted" and not f.body.get("derived")]


# ------------------------------------------------------------------------------ C15

@rule("C15.R1", floor=1)
def c15_r1(ctx):
    """The chunk loop feeds exactly what was read: the slice given to Digest::input is
    buffer[..size] with size the Ok payload of the read on the same buffer; the function
    returns Ok only on the edge size == 0; no other input call; the digest is
    crypto::sha2::Sha256 and is the one returned."""
    fs = [f for f in prod(ctx.P) if any(c.path == "std::io::Read::read" for c in f.calls) and any(c.path == "crypto::digest::Digest::input" for c in f.calls)]
    if not fs:
        # no chunk loop: the file read in one piece.  What can still be decided: the bytes that
        # reach the hash are the bytes read, not a re-encoding of them
        for f in prod(ctx.P):
            rte = [c for c in f.calls if c.path == "std::io::Read::read_to_end"]
            if not rte or f.id != "ticket::TicketFactory::from_file":
                continue
            ctx.saw(f)
            ctx.inst("whole-file read in %s" % f.id, rte[0].where)
            conv = [c for c in f.calls if c.name in ("from_utf8_lossy", "from_utf8", "from_utf8_unchecked", "to_string_lossy", "to_lowercase", "to_uppercase", "trim", "trim_end", "trim_start", "replace", "lines")]
            if conv:
                ctx.viol((f.id, "content-reencoded-before-hash"), "the bytes read from the file go through `%s` before they are hashed: the ticket is no longer the hash of the file's bytes (different files can get the same ticket)" % conv[0].name, conv[0].where)
                return
            raise AnalysisError("idiom not recognised: %s reads the file in one piece (the rule reads the chunk loop)" % f.id)
    ctx.need(len(fs) == 1, "the chunked file hasher")
    f = fs[0]
    ctx.saw(f)
    reads = [c for c in f.calls if c.path == "std::io::Read::read"]
    inputs = [c for c in f.calls if c.path == "crypto::digest::Digest::input"]
    ctx.inst("read/input pair", reads[0].where)
    if len(reads) != 1 or len(inputs) != 1:
        # a hasher that accumulates or flushes in several places may well be right: this rule
        # has no reader for it, so it does not judge it
        raise AnalysisError("idiom not recognised: the file hasher has %d read and %d digest-input sites (the rule reads the one-read / one-input chunk loop only)" % (len(reads), len(inputs)))
    rd, inp = reads[0], inputs[0]
    if inp.self_ty != "crypto::sha2::Sha256":
        ctx.viol((f.id, "digest-type"), "the digest is %s, not SHA-256" % inp.self_ty, inp.where)
    buf = f.vars_of_operand(rd.args[1])
    size = f._call_origins(rd, (("variant", "Ok"), ("field", 0)), frozenset())
    # the reader is the opened file of the path parameter
    ro = f.origins_of_operand(rd.args[0])
    if not all(is_call(o, "system::System::open") and o[1:] == (("variant", "Ok"), ("field", 0)) for o in ro):
        ctx.viol((f.id, "reads-other-file"), "bytes are read from something other than the opened path", rd.where)
    else:
        op = f.call_at[next(iter(ro))[0][2]]
        if not all(o[0][0] == "param" and len(o) == 1 for o in f.origins_of_operand(op.args[1])):
            ctx.viol((f.id, "opens-other-path"), "the file opened is not the path parameter", op.where)
    # input argument = index(buffer, RangeTo{size})
    good = False
    for o in f.origins_of_operand(inp.args[1]):
        if is_call(o) and "Index" in o[0][3]:
            ix = f.call_at[o[0][2]]
            if f.vars_of_operand(ix.args[0]) == buf and "RangeTo<usize>" in (ix.callee.get("full") or ""):
                for r in f.origins_of_operand(ix.args[1]):
                    if r[0][0] == "agg" and r[0][4].endswith("RangeTo::RangeTo"):
                        rv = f.blocks[r[0][2]]["stmts"][r[0][3]]["rv"]
                        if f.origins_of_operand(rv["ops"][0]) == size:
                            good = True
    if not good:
        ctx.viol((f.id, "input-not-what-was-read"), "the digest is not fed exactly buffer[..n] with n the byte count of the read on that buffer: hashes would depend on chunking or stale buffer content", inp.where)
    # every Ok(size != 0) iteration feeds the digest and loops; Ok is returned only on size == 0
    ok_e = f.edges_of_call_variant(rd, "Ok")
    zero_e = set()
    nonzero_e = set()
    for bb in f.live:
        info = f.switch_info(bb)
        if info and info["kind"] == "value" and info.get("origins") == size:
            for v, d in info["targets"]:
                if v == 0:
                    zero_e.add((bb, d))
            nonzero_e.add((bb, info["otherwise"]))
    # `if size == 0` / `if size != 0`

    def _is_zero(op):
        return op["k"] == "const" and op.get("bits") == "0"

    def _size_vs_zero(d):
        return (f.origins_of_operand(d["a"]) == size and _is_zero(d["b"])) or (f.origins_of_operand(d["b"]) == size and _is_zero(d["a"]))
    zero_e |= f.cmp_edges(lambda d: d["op"] == "Eq" and _size_vs_zero(d), True) | f.cmp_edges(lambda d: d["op"] == "Ne" and _size_vs_zero(d), False)
    nonzero_e |= f.cmp_edges(lambda d: d["op"] == "Eq" and _size_vs_zero(d), False) | f.cmp_edges(lambda d: d["op"] == "Ne" and _size_vs_zero(d), True)
    nonzero_e |= f.cmp_edges(lambda d: (d["op"] == "Gt" and f.origins_of_operand(d["a"]) == size and _is_zero(d["b"])) or (d["op"] == "Lt" and f.origins_of_operand(d["b"]) == size and _is_zero(d["a"])), True)
    zero_e |= f.cmp_edges(lambda d: (d["op"] == "Gt" and f.origins_of_operand(d["a"]) == size and _is_zero(d["b"])) or (d["op"] == "Lt" and f.origins_of_operand(d["b"]) == size and _is_zero(d["a"])), False)
    oks = [(bb, idx) for (bb, idx, rv, pl) in f.constructs("std::result::Result", "Ok") if pl["local"] == 0]
    for (bb, idx) in oks:
        if not (zero_e and f.dominated_by_edges(bb, zero_e)):
            ctx.viol((f.id, "hash-returned-early"), "the hash can be returned before the file was read to its end (not on the `read returned 0` edge)", f.where(bb, idx))
    r = f.reach([x for (_, x) in nonzero_e], avoid_blocks=[inp.bb])
    if rd.bb in r or any(b in r for b in f.return_blocks):
        ctx.viol((f.id, "chunk-skipped"), "a chunk that was read can be left out of the hash", rd.where)
    # digest returned is the one fed
    dv = f.vars_of_operand(inp.args[0])
    for (bb, idx, rv, pl) in f.constructs("ticket::TicketFactory"):
        got = f.vars_of_operand(rv["ops"][0])
        fam = {o for o in f.var_family(rv["ops"][0]) if o[0][0] == "var" and len(o) == 1}
        if got != dv and not (dv and dv <= fam):
            ctx.viol((f.id, "other-digest-returned"), "the factory returned does not hold the digest that was fed", f.where(bb, idx))
    ctx.ok()
    # the ticket is the digest's full 32-byte result
    rs = ctx.P.fn("ticket::TicketFactory::result")
    dr = [c for c in rs.calls if c.path == "crypto::digest::Digest::result"]
    if len(dr) != 1:
        ctx.viol((rs.id, "result-shape"), "TicketFactory::result does not take the digest's result once", rs.where(0))
    else:
        outv = rs.vars_of_operand(dr[0].args[1])
        # the digest writes into an array that becomes Ticket.sha, or straight into the `sha`
        # field of the ticket that is returned
        direct = outv and all(o[-1] == ("field", "sha") for o in outv) and \
            {o[:-1] for o in outv} == rs.vars_of_operand({"k": "copy", "place": {"local": 0, "proj": []}})
        for (bb, idx, rv, pl) in rs.constructs("ticket::Ticket"):
            if rs.vars_of_operand(rv["ops"][0]) != outv and not direct:
                ctx.viol((rs.id, "ticket-not-digest"), "the Ticket is not built from the digest output", rs.where(bb, idx))


@rule("C15.R2", floor=1)
def c15_r2(ctx):
    """Directory hash covers names and contents: the listing is hashed first; every listed
    entry reaches input_ticket with the ticket of that very entry (file or directory hash)
    or returns Err."""
    fs = [f for f in prod(ctx.P) if sys_calls(f, "list_dir") and f.calls_to("ticket::TicketFactory::input_ticket")]
    ctx.need(len(fs) == 1, "the directory hasher")
    f = fs[0]
    ctx.saw(f)
    ld = sys_calls(f, "list_dir")[0]
    listing = f._call_origins(ld, (("variant", "Ok"), ("field", 0)), frozenset())
    if not all(o[0][0] == "param" and len(o) == 1 for o in f.origins_of_operand(ld.args[1])):
        ctx.viol((f.id, "lists-other-dir"), "the directory listed is not the path parameter", ld.where)
    # names: from_str(join(listing))
    fstr = f.calls_to("ticket::TicketFactory::from_str")
    names_ok = False
    named = []
    for c in fstr:
        for o in f.origins_of_operand(c.args[0]):
            if is_call(o) and "join" in o[0][3]:
                j = f.call_at[o[0][2]]
                if f.origins_of_operand(j.args[0]) == listing:
                    names_ok = True
                    named.append(c)
    ctx.inst("names hashed", fstr[0].where if fstr else ld.where)
    if not names_ok:
        ctx.viol((f.id, "names-not-hashed"), "the entry names of a directory do not reach its hash (a rename inside would go unnoticed)", ld.where)
    else:
        ctx.ok()
    lps = [lp for lp in f.loops() if lp["iter"] == listing or all(any(o[:len(l)] == l for l in listing) for o in lp["iter"])]
    ctx.inst("entry loop", f.where(lps[0]["header"]) if lps else ld.where)
    if len(lps) != 1 or any(st[0] == "truncate" for o in lps[0]["iter"] for st in o[1:]):
        ctx.viol((f.id, "entries-not-traversed"), "the directory hash does not traverse every listed entry", ld.where)
        return
    lp = lps[0]
    its = [c for c in f.calls_to("ticket::TicketFactory::input_ticket") if c.bb in lp["body"]]
    r = f.reach([lp["some"][1]], avoid_blocks=[c.bb for c in its])
    if lp["header"] in r:
        ctx.viol((f.id, "entry-skipped"), "an entry can be skipped by the directory hash (its content would not matter)", f.where(lp["header"]))
    # the traversal is cut short only by a failure: an exit that goes on to return the factory
    # leaves the entries after it out of the hash
    ok_blocks = {bb for (bb, idx, rv, pl) in f.constructs("std::result::Result", "Ok") if pl["local"] == 0}
    for (a, b) in f.loop_exits(lp):
        if ok_blocks & set(f.reach([b])):
            ctx.viol((f.id, "entries-cut-short"), "the loop over the directory's entries can be left early and the hash is still returned: the content of the entries after that point does not matter to the directory's hash", f.where(a))
    fac = None
    for c in its:
        # ticket = result(sub_factory) where sub_factory = from_file/from_directory(system, this entry)
        ok = False
        for o in f.origins_of_operand(c.args[1]):
            if is_call(o, "ticket::TicketFactory::result"):
                rs = f.call_at[o[0][2]]
                for s in f.origins_of_operand(rs.args[0]):
                    if is_call(s) and s[1:] == (("variant", "Ok"), ("field", 0)) and s[0][3] in ("ticket::TicketFactory::from_file", "ticket::TicketFactory::from_directory"):
                        sc = f.call_at[s[0][2]]
                        if f.origins_of_operand(sc.args[1]) == lp["elem"]:
                            ok = True
        if not ok:
            # the hash of this entry taken through a function that is not one of the two hashers
            # (a dispatcher introduced by a refactoring, recursive with this one): not read
            for o in f.origins_of_operand(c.args[1]):
                if is_call(o, "ticket::TicketFactory::result"):
                    rs = f.call_at[o[0][2]]
                    for s2 in f.origins_of_operand(rs.args[0]):
                        if is_call(s2) and s2[1:] == (("variant", "Ok"), ("field", 0)):
                            sc = f.call_at[s2[0][2]]
                            tg = ctx.P.local_targets(sc)
                            if tg and tg[0] not in ("ticket::TicketFactory::from_file", "ticket::TicketFactory::from_directory") \
                                    and any(f.origins_of_operand(a) == lp["elem"] for a in sc.args):
                                raise AnalysisError("idiom not recognised: %s hashes an entry through %s, which is not one of the two hashers" % (f.id, tg[0]))
            ctx.viol((f.id, "entry-foreign-ticket"), "the ticket mixed in for an entry is not the hash of that entry", c.where)
        v = f.vars_of_operand(c.args[0])
        fac = v if fac is None else fac
        if v != fac:
            ctx.viol((f.id, "entry-other-factory"), "entries are hashed into different factories", c.where)
    # returned factory is the one that got names and entries
    # (one factory may go by several names: the accumulator of a fold and the variable it started from)
    family = set()
    for c in its:
        family |= f.var_family(c.args[0])
    if its and named and not any(f.vars_of_place(c.dest) & family for c in named):
        ctx.viol((f.id, "names-in-other-factory"), "the entry names are hashed into a factory other than the one the entries go into: they do not reach the directory's hash", named[0].where)
    for (bb, idx, rv, pl) in f.constructs("std::result::Result", "Ok"):
        rvars = f.vars_of_operand(rv["ops"][0])
        if pl["local"] == 0 and rvars != fac and not (rvars and rvars <= family):
            ctx.viol((f.id, "dir-other-factory-returned"), "the directory hash returned is not the one names and entries were fed to", f.where(bb, idx))
    ctx.ok()


@rule("C15.R8", floor=3)
def c15_r8(ctx):
    """Inputs reach the digest at once and in call order: every function of the hash factory
    that takes `&mut self` and one input (`input_ticket`, `input_str`, `input_bytes`) hands that
    input to `Digest::input` of the factory's own digest - or to another of these functions -
    on every path before it returns.  An input that is kept back on some path (gathered in a
    buffer, skipped) is overtaken by a later one: two different sequences of strings then
    hash alike."""
    fns = [f for f in prod(ctx.P) if f.id.startswith("ticket::TicketFactory::input_") and f.nargs == 2]
    ctx.need(len(fns) >= 3, "the factory's input functions")
    names = {f.id for f in fns}
    for f in fns:
        ctx.saw(f)
        ctx.inst(f.id, f.where(0))
        feeding = []
        for c in f.calls:
            if c.path == "crypto::digest::Digest::input" and len(c.args) >= 2:
                so = f.origins_of_operand(c.args[0])
                io = f.origins_of_operand(c.args[1])
                if so and all(o[0] == ("param", 1) and o[-1] == ("field", "dig") for o in so) and io and all(o[0] == ("param", 2) for o in io):
                    feeding.append(c.bb)
            elif c.path in names and c.path != f.id and len(c.args) >= 2:
                so = f.origins_of_operand(c.args[0])
                io = f.origins_of_operand(c.args[1])
                if so and all(o == (("param", 1),) for o in so) and io and all(o[0] == ("param", 2) for o in io):
                    feeding.append(c.bb)
        if not feeding:
            if not any(c.path == "crypto::digest::Digest::input" or c.path in names for c in f.calls):
                raise AnalysisError("idiom not recognised: %s neither feeds a digest nor another input function" % f.id)
            ctx.viol((f.id, "input-not-fed"), "%s does not hand its input to the factory's digest" % f.id, f.where(0))
            continue
        r = f.reach([0], avoid_blocks=feeding)
        if any(b in r for b in f.return_blocks):
            ctx.viol((f.id, "input-kept-back"), "%s can return without having handed its input to the digest (kept in a buffer, or skipped): a later input overtakes it, and different sequences of strings hash alike" % f.id, f.where(0))
        else:
            ctx.ok()


def _codec(ctx):
    enc = [f for f in prod(ctx.P) if any(c.path == "num_bigint::BigUint::from_bytes_le" for c in f.calls)]
    dec = [f for f in prod(ctx.P) if any(c.path == "num_bigint::BigUint::to_bytes_le" for c in f.calls)]
    ctx.need(len(enc) == 1 and len(dec) == 1, "base-62 encoder (from_bytes_le) and decoder (to_bytes_le)")
    return enc[0], dec[0]


def _alphabet(ctx, enc):
    for b in enc.blocks:
        for s in b["stmts"]:
            if s["k"] == "assign" and s["rv"]["k"] == "use" and s["rv"]["op"]["k"] == "const" and "bytes" in s["rv"]["op"] \
                    and s["rv"]["op"]["ty"]["s"].startswith("[u8;"):
                return bytes(s["rv"]["op"]["bytes"]), s["place"]["local"], b["i"]
    raise AnalysisError("anchor missing: the encoder's alphabet constant")


from charclass import NarrowedChar, decoder_table_by_intervals


def _decoder_table(ctx, dec):
    """char value -> digit constant, and the block of the default arm."""
    lps = dec.loops()
    for bb in dec.live:
        info = dec.switch_info(bb)
        if info and info["discr_ty"] == "char" and len(info["targets"]) >= 10:
            table = {}
            for v, d in info["targets"]:
                blk = dec.blocks[d]
                vals = [s["rv"]["op"].get("bits") for s in blk["stmts"] if s["k"] == "assign" and s["rv"]["k"] == "use" and s["rv"]["op"]["k"] == "const"]
                if len(vals) != 1:
                    raise AnalysisError("idiom not recognised: decoder arm for %r at %s" % (chr(v), dec.where(d)))
                table[v] = int(vals[0])
            return info, table
    # no table: is the character narrowed before it is classified?
    for b in dec.blocks:
        if b["cleanup"]:
            continue
        for i, st in enumerate(b["stmts"]):
            if st["k"] == "assign" and st["rv"]["k"] == "cast" and st["rv"]["ty"]["s"] in ("u8", "i8", "u16", "i16"):
                src = st["rv"]["op"]
                if src["k"] in ("copy", "move") and dec.local_ty(src["place"]["local"])["s"] == "char":
                    raise NarrowedChar(dec.where(b["i"], i))
    # classification by comparisons (`'0'..='9' => c as u32 - '0' as u32`): evaluate the
    # classifier over a partition of the code points into intervals on which every comparison
    # has one outcome
    return decoder_table_by_intervals(dec)


@rule("C15.R3", floor=124)
def c15_r3(ctx):
    """Codec tables agree: the encoder's 62-byte alphabet is a permutation of [0-9a-zA-Z];
    the decoder's match maps exactly those characters, each to its alphabet index; padding
    byte = alphabet[0]; both sides use the base len(alphabet) in every multiply / divide /
    remainder; little-endian on both sides; encoder buffer length = decoder length test."""
    enc, dec = _codec(ctx)
    ctx.saw(enc)
    ctx.saw(dec)
    A, alocal, abb = _alphabet(ctx, enc)
    want = set(b"0123456789abcdefghijklmnopqrstuvwxyzABCDEFGHIJKLMNOPQRSTUVWXYZ")
    for i, ch in enumerate(A):
        ctx.inst("alphabet[%d]" % i)
    if len(A) != 62 or set(A) != want or len(set(A)) != len(A):
        ctx.viol((enc.id, "alphabet-not-permutation"), "the alphabet is not a permutation of the 62 alphanumerics (%r)" % A, enc.where(abb))
    else:
        ctx.ok(62)
    try:
        info, table = _decoder_table(ctx, dec)
    except NarrowedChar as e:
        ctx.viol((dec.id, "character-narrowed"), "the decoder classifies `c as u8/u16` instead of the character: code points that differ from an alphabet character only above the kept bits are accepted as that digit (foreign characters decode)", str(e))
        return
    if not any(v is not None for v in table.values()):
        # digit values computed (`c as u32 - 'a' as u32 + 10`) rather than listed: the evaluation
        # follows constants only
        raise AnalysisError("idiom not recognised: the digit values of %s are computed from the character, not constants per character class" % dec.id)
    for ch, val in sorted(table.items()):
        ctx.inst("decoder %r -> %d" % (chr(ch), val))
    bad = []
    for i, ch in enumerate(A):
        if table.get(ch) != i:
            bad.append("%r: encoder index %d, decoder %s" % (chr(ch), i, table.get(ch)))
    extra = [chr(c) for c in table if c not in A]
    for (lo, hi, kind, v) in info.get("other", []):
        if kind == "digit-wide":
            extra.append("U+%04X..U+%04X" % (lo, hi))
        elif kind == "panic":
            ctx.viol((dec.id, "decoder-panics-on-character"), "characters U+%04X..U+%04X make the decoder panic instead of returning InvalidCharacter" % (lo, hi), v)
        elif kind.startswith("other-error"):
            ctx.viol((dec.id, "decoder-wrong-error"), "characters U+%04X..U+%04X are rejected with %s, not InvalidCharacter" % (lo, hi, kind.split(":")[1]), dec.where(info["bb"]))
    if info.get("by_intervals"):
        ctx.inst("decoder classifier evaluated over %d code-point intervals" % info["cells"])
    if bad or extra:
        ctx.viol((dec.id, "codec-tables-disagree"), "encoder and decoder disagree: %s%s" % ("; ".join(bad[:4]), (" ; decoder accepts foreign characters %s" % extra[:4]) if extra else ""), dec.where(info["bb"]))
    else:
        ctx.ok(62)
    # the index into the alphabet is (n % base): base = len(A)
    base = str(len(A))
    consts = []
    for c in enc.calls + dec.calls:
        if c.path in ("std::ops::Rem::rem", "std::ops::DivAssign::div_assign", "std::ops::MulAssign::mul_assign", "std::ops::Div::div", "std::ops::Mul::mul") \
                and c.args[1]["k"] == "const":
            consts.append((c, c.args[1].get("bits")))
    ctx.inst("base constants (%d)" % len(consts))
    kinds = {c.name.replace("_assign", "") for c, _ in consts}
    if not {"rem", "div", "mul"} <= kinds:
        ctx.viol((enc.id, "base-ops-missing"), "cannot find the remainder / division / multiplication by the base", enc.where(0))
    for c, b in consts:
        if b != base:
            ctx.viol((c.fn.id, "base-mismatch", c.name), "%s uses base %s while the alphabet has %s symbols" % (c.name, b, base), c.where)
    # padding and lengths
    pad = None
    enc_len = None
    for b in enc.blocks:
        for s in b["stmts"]:
            if s["k"] == "assign" and s["rv"]["k"] == "repeat":
                pad = s["rv"]["op"].get("bits")
                enc_len = s["rv"]["n"]
    ctx.inst("padding / length")
    if pad is None:
        raise AnalysisError("idiom not recognised: the padding byte of %s is not a literal" % enc.id)
    if int(pad) != A[0]:
        ctx.viol((enc.id, "padding-not-zero-digit"), "the buffer is padded with byte %s, not with the zero digit %r: short values would not decode back" % (pad, chr(A[0])), enc.where(0))
    dec_len = None
    for bb in dec.live:
        i2 = dec.switch_info(bb)
        d = dec.cmp_desc(i2) if i2 else None
        if d and d["b"]["k"] == "const":
            for o in dec.origins_of_operand(d["a"]):
                if is_call(o, "core::str::<impl str>::len"):
                    dec_len = d["b"].get("bits")
    if enc_len is None or dec_len is None or str(enc_len).split("_")[0] != str(dec_len):
        ctx.viol((dec.id, "length-mismatch"), "encoder writes %s characters, decoder demands %s" % (enc_len, dec_len), dec.where(0))
    elif 62 ** int(dec_len) < 2 ** 256:
        ctx.viol((dec.id, "length-too-short"), "%s base-62 digits cannot hold 256 bits" % dec_len, dec.where(0))
    else:
        ctx.ok()
    # the digit written is alphabet[n % base] at the running position; n is divided afterwards
    # (structure: index operand of the alphabet derives from rem(.., base))
    found = False
    for b in enc.blocks:
        if b["cleanup"]:
            continue
        t = b["term"]
        if t["k"] == "assert" and t["msg"]["k"] == "bounds_check":
            io = enc.origins_of_operand(t["msg"]["index"])
            # (`to_u32(rem(n, base))` unwrapped: the payload of the conversion's Some)
            for o2 in io:
                if is_call(o2) and o2[0][3].startswith("num_traits::ToPrimitive::to_") and o2[1:] == (("variant", "Some"), ("field", 0)):
                    tu = enc.call_at[o2[0][2]]
                    if all(is_call(o3, "std::ops::Rem::rem") for o3 in enc.origins_of_operand(tu.args[0])):
                        found = True
    if not found:
        ctx.viol((enc.id, "digit-not-remainder"), "the digit index is not `n % base`", enc.where(0))


@rule("C15.R4", floor=3)
def c15_r4(ctx):
    """Rejections: the decoder's Ok is dominated by an edge meaning `length == L` (L the
    encoder's buffer length) and by one meaning `at most N bytes` (N the length of the
    result array); the match's default arm returns InvalidCharacter."""
    enc, dec = _codec(ctx)
    oks = [(bb, idx, rv) for (bb, idx, rv, pl) in dec.constructs("std::result::Result", "Ok") if pl["local"] == 0]
    ctx.need(oks, "decoder Ok")
    enc_len = None
    for b in enc.blocks:
        for s in b["stmts"]:
            if s["k"] == "assign" and s["rv"]["k"] == "repeat":
                enc_len = str(s["rv"]["n"]).split("_")[0]
    res_len = None
    for b in dec.blocks:
        for s in b["stmts"]:
            if s["k"] == "assign" and s["rv"]["k"] == "repeat":
                res_len = str(s["rv"]["n"]).split("_")[0]

    def is_strlen(d, const):
        return d["b"]["k"] == "const" and d["b"].get("bits") == const and any(is_call(o, "core::str::<impl str>::len") and
                                                                              all(a[0][0] == "param" for a in dec.origins_of_operand(dec.call_at[o[0][2]].args[0]))
                                                                              for o in dec.origins_of_operand(d["a"]))

    def is_veclen(d, const):
        if not (d["b"]["k"] == "const" and d["b"].get("bits") == const):
            return False
        for o in dec.origins_of_operand(d["a"]):
            if is_call(o, "std::vec::Vec::<T, A>::len"):
                ln = dec.call_at[o[0][2]]
                if all(is_call(v, "num_bigint::BigUint::to_bytes_le") for v in dec.origins_of_operand(ln.args[0])):
                    return True
        return False
    len_ok = dec.cmp_edges(lambda d: d["op"] == "Ne" and is_strlen(d, enc_len), False) | dec.cmp_edges(lambda d: d["op"] == "Eq" and is_strlen(d, enc_len), True)
    size_ok = dec.cmp_edges(lambda d: d["op"] == "Gt" and is_veclen(d, res_len), False) | dec.cmp_edges(lambda d: d["op"] == "Le" and is_veclen(d, res_len), True)
    for (bb, idx, rv) in oks:
        ctx.inst("decoder Ok: length test", dec.where(bb, idx))
        if dec.dominated_by_edges(bb, len_ok):
            ctx.ok()
        else:
            ctx.viol((dec.id, "length-not-enforced"), "a string whose length is not exactly %s can decode successfully" % enc_len, dec.where(bb, idx))
        ctx.inst("decoder Ok: overflow test", dec.where(bb, idx))
        if dec.dominated_by_edges(bb, size_ok):
            ctx.ok()
        else:
            ctx.viol((dec.id, "overflow-not-enforced"), "a value needing more than %s bytes can decode successfully (or index past the result array)" % res_len, dec.where(bb, idx))
    try:
        info, table = _decoder_table(ctx, dec)
    except NarrowedChar as e:
        ctx.inst("default arm", str(e))
        ctx.viol((dec.id, "character-narrowed"), "foreign characters are not rejected: the decoder classifies a truncating cast of the character", str(e))
        return
    lps = [lp for lp in dec.loops() if info["bb"] in lp["body"]]
    if info.get("by_intervals"):
        # the interval evaluation already decided, for every code point, digit / InvalidCharacter / else
        ctx.inst("default arm", dec.where(info["bb"]))
        foreign = [c for c in table if c not in set(b"0123456789abcdefghijklmnopqrstuvwxyzABCDEFGHIJKLMNOPQRSTUVWXYZ")]
        wide = [o for o in info["other"] if o[2] in ("digit-wide", "unreachable")]
        if foreign or wide:
            ctx.viol((dec.id, "foreign-character-accepted"), "a character outside the alphabet does not end in InvalidCharacter (e.g. %r)" % (chr(foreign[0]) if foreign else "U+%04X" % wide[0][0]), dec.where(info["bb"]))
        else:
            ctx.ok()
    else:
        ctx.inst("default arm", dec.where(info["otherwise"]))
        r = dec.reach([info["otherwise"]])
        errs = [(bb, idx) for (bb, idx, rv, pl) in dec.constructs("ticket::FromHumanReadableError", "InvalidCharacter") if bb in r]
        if not errs or (lps and lps[0]["header"] in dec.reach([info["otherwise"]], avoid_blocks=[b for (b, i) in errs])):
            ctx.viol((dec.id, "foreign-character-accepted"), "a character outside the alphabet does not end in InvalidCharacter", dec.where(info["otherwise"]))
        else:
            ctx.ok()
    # the decoder is applied to the caller's string itself (no trimming / case folding / replacing first)
    for cs in ctx.P.callers.get(dec.id, []):
        g = cs.fn
        if g.body.get("in_test"):
            continue
        ctx.inst("decoder called from %s" % g.id, cs.where)
        ao = g.origins_of_operand(cs.args[0])
        def own_string(o):
            # the parameter itself, or one piece of it as `split` hands it out (the decoder inlined
            # into a caller that walks the lines of a listing)
            return o[0][0] == "param" and all(st == ("iter", "split") or st[0] == "next" or st == ("variant", "Some") or st == ("field", 0) for st in o[1:])
        if ao and all(own_string(o) for o in ao):
            ctx.ok()
        else:
            ctx.viol((g.id, "string-altered-before-decoding"), "the string handed to the decoder is not the caller's string itself (derives from %s): strings that are not a 43-character encoding can be accepted" % sorted(map(fmt_origin, ao)), cs.where)
    # the value decoded is what is returned: result array filled from to_bytes_le in order
    # every character is consumed (complete loop over chars of the parameter)
    if lps:
        lp = lps[0]
        if not all(o[0][0] == "param" and all(st[0] in ("iter", "adapt") for st in o[1:]) for o in lp["iter"]):
            ctx.viol((dec.id, "chars-truncated"), "the decoder does not consume every character", dec.where(lp["header"]))


# ------------------------------------------------------------------------------ C16

@rule("C16.R1", floor=2)
def c16_r1(ctx):
    """Reader and writer agree: for each state file the type instantiating
    bincode::serialize equals the one instantiating bincode::deserialize, both use the
    default entry points, and both derive the file path from the same owner field."""
    ser = [c for f in prod(ctx.P) for c in f.calls if c.path.endswith("bincode::serialize")]
    de = [c for f in prod(ctx.P) for c in f.calls if c.path.endswith("bincode::deserialize")]
    other = [c for f in prod(ctx.P) for c in f.calls if "bincode::" in c.path and not c.path.endswith(("bincode::serialize", "bincode::deserialize"))]
    for c in other:
        ctx.inst("bincode entry point %s" % c.path, c.where)
        ctx.viol((c.fn.id, "bincode-options", c.path), "a bincode entry point other than serialize / deserialize of a byte slice is used (%s): writer and reader no longer go through the same encoding of the same bytes - a streaming decoder, for one, trusts a length prefix before it knows how many bytes there are, so a damaged file ends in a huge allocation or a panic instead of an error" % c.path.split("::")[-1], c.where)
    if other:
        return
    ctx.need(len(ser) >= 2 and len(de) >= 2, "bincode serialize/deserialize sites")

    def ty_of(c, idx):
        g = c.callee.get("generic_args", [])
        return g[idx].lstrip("&") if len(g) > idx else None
    pairs = {}
    for c in ser:
        owner = c.fn.id.split("::")[0]
        pairs.setdefault(owner, {})["ser"] = (c, ty_of(c, 0))
    for c in de:
        owner = c.fn.id.split("::")[0]
        g = c.callee.get("generic_args", [])
        pairs.setdefault(owner, {})["de"] = (c, [x for x in g if not x.startswith("'")][0] if g else None)
    for owner, p in pairs.items():
        if "ser" not in p or "de" not in p:
            ctx.viol((owner, "state-one-sided"), "state of module %s is only %s" % (owner, "written" if "ser" in p else "read"))
            continue
        ctx.inst("state file of %s" % owner, p["ser"][0].where)
        if p["ser"][1] != p["de"][1]:
            ctx.viol((owner, "state-type-mismatch"), "module %s writes %s but reads %s" % (owner, p["ser"][1], p["de"][1]), p["de"][0].where)
        else:
            ctx.ok()
    # what is serialised is the owner's full state; what is read back is stored as such
    h = ctx.P.fn("history::History::<SystemType>::write_rule_history")
    for c in [x for x in ser if x.fn is h]:
        if not all(o[0][0] == "param" and len(o) == 1 for o in h.origins_of_operand(c.args[0])):
            ctx.viol((h.id, "writes-other-history"), "the bytes written are not the serialisation of the history handed in", c.where)
    for f in prod(ctx.P):
        for c in f.calls:
            if c.trait == "std::io::Write" and c.name in ("write_all", "write") and (f.id.startswith("history::") or f.id.startswith("current::")):
                bo = f.origins_of_operand(c.args[1])
                ok = all(((o[0][0] == "call" and o[0][3].endswith("bincode::serialize")) and o[1:] == (("variant", "Ok"), ("field", 0))) or (o[0][0] == "param") for o in bo)
                if not ok:
                    ctx.viol((f.id, "writes-other-bytes"), "bytes written to a state file are not the bincode serialisation", c.where)


@rule("C16.R2", floor=6)
def c16_r2(ctx):
    """A decode error is an error all the way up: the Err edge of each deserialize leads only
    to Err returns (never to a default value), and these are propagated by directory::init
    -> build/clean and by the per-node history read -> build to an Err return."""
    de = [c for f in prod(ctx.P) for c in f.calls if c.path.endswith("bincode::deserialize")]
    ctx.need(len(de) >= 2, "deserialize sites")
    for c in de:
        f = c.fn
        ctx.saw(f)
        ctx.inst("decode in %s" % f.id, c.where)
        err_e = f.edges_of_call_variant(c, "Err")
        _must_return_err(ctx, f, err_e, c.where, "a state file that does not decode")
        # once the state file could be opened, a normal result comes from the decoder only
        # (an opened file that is empty / short is a damaged file, not "no state yet")
        opens = sys_calls(f, "open")
        for op in opens:
            ctx.inst("opened state file in %s" % f.id, op.where)
            ok_e = f.edges_of_call_variant(op, "Ok")
            errs = [bb for (bb, idx, rv, pl) in f.constructs("std::result::Result", "Err") if pl["local"] == 0] + \
                   [c2.bb for c2 in f.calls if "from_residual" in c2.path]
            r = f.reach([x for (_, x) in ok_e], avoid_blocks=errs + [c.bb])
            if ok_e and any(b in r for b in f.return_blocks):
                ctx.viol((f.id, "opened-state-file-not-decoded"), "a state file that exists can yield a normal result without being decoded (e.g. when it is empty): a truncated file is read as `no state yet` and overwritten", op.where)
            else:
                ctx.ok()
    # propagation chain
    R = Roles(ctx.P)
    serve = None
    try:
        serve = R.entry("serve")
    except AnalysisError:
        pass
    work = [c.fn for c in de]
    seen = set()
    while work:
        g = work.pop()
        if g.id in seen:
            continue
        seen.add(g.id)
        for cs in ctx.P.callers.get(g.id, []):
            cf = cs.fn
            if cf.body.get("in_test") or cf.kind == "promoted":
                continue
            if serve is not None and cf.id.startswith(serve.id):
                continue
            if "Result<" not in ctx.P.fns[g.id].body.get("output", {}).get("s", ""):
                continue
            ctx.inst("propagation %s <- %s" % (cf.id, g.id), cs.where)
            err_e = cf.edges_of_call_variant(cs, "Err")
            if not err_e and cf._call_origins(cs, (), frozenset()) <= cf.origins_of_place({"local": 0, "proj": []}) and cs.dest["local"] == 0:
                # returned as is: the caller of cf has to examine it
                ctx.ok()
                work.append(cf)
                continue
            if not err_e:
                ctx.viol((cf.id, "decode-error-unexamined", g.id), "the result of %s is not examined: a corrupt state file would be ignored" % g.id, cs.where)
                continue
            if "Result<" in cf.body.get("output", {}).get("s", "") or cf.kind == "closure":
                _must_return_err(ctx, cf, err_e, cs.where, "an unreadable state file reported by %s" % g.id)
                if cf.id != "main":
                    work.append(cf)


def _must_return_err(ctx, f, err_edges, site, what):
    r = f.reach([x for (_, x) in err_edges])
    bad = None
    for (bb, idx, rv, pl) in f.constructs("std::result::Result", "Ok"):
        if pl["local"] == 0 and bb in r and f.dominated_by_edges(bb, err_edges):
            bad = (bb, idx)
    # any return reachable from the Err edge must have _0 assigned an Err on the way
    errs = [bb for (bb, idx, rv, pl) in f.constructs("std::result::Result", "Err") if pl["local"] == 0] + \
           [c.bb for c in f.calls if "from_residual" in c.path]
    r2 = f.reach([x for (_, x) in err_edges], avoid_blocks=errs)
    if bad is not None or any(b in r2 for b in f.return_blocks):
        ctx.viol((f.id, "decode-error-swallowed"), "%s can be turned into a normal result (default / empty state) instead of an error" % what, site)
    else:
        ctx.ok()


# ------------------------------------------------------------------------------ C19

def _endpoints(ctx):
    R = Roles(ctx.P)
    s = R.entry("serve")
    cls = [f for f in ctx.P.fns.values() if f.kind == "closure" and f.id.startswith(s.id) and
           any(c.path == "ticket::Ticket::from_human_readable" for c in f.calls)]
    ctx.need(len(cls) == 2, "the two endpoint closures of the server")
    return cls


@rule("C19.R1", floor=3)
def c19_r1(ctx):
    """Decode before touching the file system: in both endpoint closures every call that
    reaches a System method is dominated by the Ok edge(s) of Ticket::from_human_readable on
    the request string(s); the Err edges return a response built with NOT_FOUND."""
    for cl in _endpoints(ctx):
        ctx.saw(cl)
        decs = [c for c in cl.calls if c.path == "ticket::Ticket::from_human_readable"]
        ok_all = []
        for d in decs:
            ctx.inst("decode in %s" % cl.id, d.where)
            if not all(o[0][0] == "param" and o[0][1] >= 2 and len(o) == 1 for o in cl.origins_of_operand(d.args[0])):
                ctx.viol((cl.id, "decodes-other-string"), "the string decoded is not a request parameter", d.where)
            ok_all.append(cl.edges_of_call_variant(d, "Ok"))
            err_e = cl.edges_of_call_variant(d, "Err")
            st = _statuses_after(cl, err_e)
            if st != {"NOT_FOUND"}:
                ctx.viol((cl.id, "malformed-name-status"), "a name that does not decode is answered with %s instead of 404" % sorted(st), d.where)
            else:
                ctx.ok()
        for c in cl.calls:
            eff = call_effects(ctx.P, c)
            if eff:
                for e in ok_all:
                    if not cl.dominated_by_edges(c.bb, e):
                        ctx.viol((cl.id, "fs-before-decode", c.path), "the file system is touched (%s) before every request name was decoded as a ticket" % ", ".join(sorted(eff)), c.where)


STATUS_CONSTS = {"warp::http::StatusCode::OK": "OK", "warp::http::StatusCode::NOT_FOUND": "NOT_FOUND",
                 "warp::http::StatusCode::INTERNAL_SERVER_ERROR": "INTERNAL_SERVER_ERROR"}


class _Site:
    """A place where a status code is decided (the call itself, or the assignment of the constant)."""
    def __init__(self, call, bb, fn):
        self.call = call
        self.bb = bb
        self.where = fn.where(bb) if bb != call.bb else call.where


def _status_of_call(cl, c):
    """For a `Builder::status(builder, CODE)` call, the code's name."""
    if not c.path.endswith("Builder::status"):
        return None
    a = c.args[1]
    if a["k"] == "const":
        t = a.get("item") or a.get("text", "")
        if "StatusCode::" in t:
            nm = t.split("StatusCode::")[-1]
            if nm in ("OK", "NOT_FOUND", "INTERNAL_SERVER_ERROR"):
                return nm
        return "other:" + t
    return "dynamic"


def _const_status(a):
    t = a.get("item") or a.get("text", "")
    if "StatusCode::" in t:
        nm = t.split("StatusCode::")[-1]
        if nm in ("OK", "NOT_FOUND", "INTERNAL_SERVER_ERROR"):
            return nm
    return "other:" + t


def _status_sites(cl, c):
    """Where the code of a `Builder::status(builder, CODE)` call is decided: [(code, block)].
    A literal code is decided at the call; a code that is data (`let (status, text) = match r
    { Ok(s) => (OK, s), Err(m) => (NOT_FOUND, m) }`) is decided where each constant is written."""
    if not c.path.endswith("Builder::status"):
        return []
    a = c.args[1]
    if a["k"] == "const":
        return [(_const_status(a), c.bb)]

    def fields_of(proj):
        out = []
        for e in proj:
            if e["k"] == "field":
                out.append(e["i"])
            elif e["k"] == "deref":
                continue
            else:
                return None
        return tuple(out)
    seen = set()

    def from_op(op, rest, bb, depth):
        if op["k"] == "const":
            return [(_const_status(op), bb)] if not rest else [("dynamic", bb)]
        fl = fields_of(op["place"]["proj"])
        if fl is None:
            return [("dynamic", bb)]
        return chase(op["place"]["local"], fl + rest, depth + 1)

    def chase(local, path, depth):
        if depth > 8 or (local, path) in seen:
            return [("dynamic", c.bb)]
        seen.add((local, path))
        out = []
        defs = cl.defs.get(local, ())
        if not defs:
            return [("dynamic", c.bb)]
        for (kind, bb, idx, place, payload) in defs:
            if kind != "assign":
                out.append(("dynamic", bb))
                continue
            lhs = fields_of(place["proj"])
            if lhs is None:
                out.append(("dynamic", bb))
                continue
            if lhs:
                if path[:len(lhs)] != lhs:
                    continue
                rest = path[len(lhs):]
            else:
                rest = path
            rv = payload
            if rv["k"] == "use":
                out += from_op(rv["op"], rest, bb, depth)
            elif rv["k"] == "aggregate" and rv["kind"]["k"] in ("tuple", "adt") and rest and rest[0] < len(rv["ops"]):
                out += from_op(rv["ops"][rest[0]], rest[1:], bb, depth)
            else:
                out.append(("dynamic", bb))
        return out or [("dynamic", c.bb)]
    fl = fields_of(a["place"]["proj"])
    if fl is None:
        return [("dynamic", c.bb)]
    return chase(a["place"]["local"], fl, 0)


def _statuses_after(cl, edges):
    """Status codes of the responses built on paths that start with one of `edges` (up to the
    next return)."""
    out = set()
    r = cl.reach([x for (_, x) in edges])
    for b in r:
        if b in cl.call_at:
            for (code, site) in _status_sites(cl, cl.call_at[b]):
                # the code is decided on a path that starts with one of the edges
                if site in r:
                    out.add(code)
    return out


@rule("C19.R2", floor=2)
def c19_r2(ctx):
    """Confinement by type: the only file-system entry points the endpoint closures call take
    a Ticket (SysCache::open, History::read_rule_history) and build their path as
    `<owner dir>/<43 alphanumerics>` (C07.R2); no other System / std::fs call is reachable
    from them; neither entry point mutates."""
    for cl in _endpoints(ctx):
        for c in cl.calls:
            eff = call_effects(ctx.P, c)
            if not eff:
                continue
            ctx.inst("fs entry %s in %s" % (c.path, cl.id), c.where)
            tg = ctx.P.local_targets(c)
            if c.trait == SYS:
                ctx.viol((cl.id, "raw-system-call", c.name), "an endpoint calls System::%s directly with a request-derived path" % c.name, c.where)
                continue
            if mutating(eff):
                ctx.viol((cl.id, "endpoint-mutates", c.path), "a request can change the file system (%s)" % ", ".join(sorted(mutating(eff))), c.where)
                continue
            g = ctx.P.fns[tg[0]]
            ins = [t["s"] for t in g.body.get("inputs", [])]
            if any(t in ("&str", "std::string::String", "&std::string::String") for t in ins[1:]):
                ctx.viol((cl.id, "string-path-entry", c.path), "an endpoint reaches the file system through a function that takes a string path (%s): names are not confined by type" % c.path, c.where)
                continue
            if not any("ticket::Ticket" in t for t in ins):
                ctx.viol((cl.id, "untyped-entry", c.path), "file-system entry point without a Ticket parameter", c.where)
                continue
            # every System path inside derives from self.path + "/" + ticket
            from r_fs import classify_path_operand
            bad = False
            for fid in ctx.P.reachable_fns([g.id]):
                h = ctx.P.fns[fid]
                for sc in sys_calls(h):
                    for a in sc.args[1:]:
                        if a["k"] in ("copy", "move") and h.local_ty(a["place"]["local"])["s"] in ("&str", "&std::string::String"):
                            cls = classify_path_operand(ctx.P, h, a)
                            if not cls or not all(x.startswith("rulerdir:") for x in cls):
                                bad = True
            if bad:
                ctx.viol((cl.id, "entry-leaves-ruler-dir", c.path), "a path opened on behalf of a request does not lie under the cache / history directory", c.where)
            else:
                ctx.ok()


@rule("C19.R3", floor=4)
def c19_r3(ctx):
    """Status mapping: OK is built only on the Ok edge of open and of the subsequent read
    (files) / on the Some edge of the lookup (rules); every lookup failure edge builds
    NOT_FOUND; the rules body is download_string() of the looked-up vector."""
    for cl in _endpoints(ctx):
        stat = [c for c in cl.calls if c.path.endswith("Builder::status")]
        lookups = []
        for c in cl.calls:
            if call_effects(ctx.P, c) and ctx.P.local_targets(c):
                lookups.append(c)
        gets = [c for c in cl.calls if c.path == "history::RuleHistory::get_file_state_vec"]
        reads = [c for c in cl.calls if c.path == "std::io::Read::read_to_end"]
        for s0 in stat:
          for (code, sbb) in _status_sites(cl, s0):
            s = _Site(s0, sbb, cl)
            ctx.inst("%s in %s" % (code, cl.id), s.where)
            if code == "OK":
                need = []
                for l in lookups:
                    need.append(cl.edges_of_call_variant(l, "Ok"))
                for g in gets:
                    need.append(cl.edges_of_call_variant(g, "Some"))
                for r in reads:
                    need.append(cl.edges_of_call_variant(r, "Ok"))
                if all(cl.dominated_by_edges(s.bb, e) for e in need) and need:
                    ctx.ok()
                else:
                    ctx.viol((cl.id, "ok-without-content"), "status 200 can be sent although the lookup (or the read) did not succeed", s.where)
            elif code == "NOT_FOUND":
                ctx.ok()
            elif code == "INTERNAL_SERVER_ERROR":
                # only for a read error on an opened entry
                e = set()
                for r in reads:
                    e |= cl.edges_of_call_variant(r, "Err")
                if cl.dominated_by_edges(s.bb, e):
                    ctx.ok()
                else:
                    ctx.viol((cl.id, "500-elsewhere"), "500 is sent on a path other than a failed read of an opened entry", s.where)
            else:
                ctx.viol((cl.id, "unexpected-status", code), "unexpected status %s" % code, s.where)
        for l in lookups:
            st = _statuses_after(cl, cl.edges_of_call_variant(l, "Err"))
            if st != {"NOT_FOUND"}:
                ctx.viol((cl.id, "lookup-failure-status", l.path), "a failed lookup (%s) is answered with %s instead of 404" % (l.path, sorted(st)), l.where)
        for g in gets:
            st = _statuses_after(cl, cl.edges_of_call_variant(g, "None"))
            if st != {"NOT_FOUND"}:
                ctx.viol((cl.id, "miss-status"), "an unknown (rule, sources) pair is answered with %s instead of 404" % sorted(st), g.where)
            # lookup arguments: history of the rule ticket, key = source ticket (decoded from the two params)
        # bodies
        bodies = [c for c in cl.calls if c.path.endswith("Builder::body")]
        for b in bodies:
            prev = [s for s in stat if cl.origins_of_operand(b.args[0]) == cl._call_origins(s, (), frozenset())]
            if not prev or _status_of_call(cl, prev[0]) != "OK":
                continue
            ctx.inst("200 body in %s" % cl.id, b.where)
            bo = cl.origins_of_operand(b.args[1])
            if gets:
                # into_bytes(format!("{}", download_string(vec)))
                ok = False
                for o in bo:
                    if is_call(o) and o[0][3].endswith("into_bytes"):
                        ib = cl.call_at[o[0][2]]
                        fm = format_of_operand(cl, ib.args[0])
                        # format!("{}", s).into_bytes()  or  s.into_bytes()
                        shown = fm[0][1] if (fm and len(fm) == 1 and fm[0][0] == "arg") else (ib.args[0] if fm is None else None)
                        if shown is not None:
                            for x in cl.origins_of_operand(shown):
                                if is_call(x, "blob::FileStateVec::download_string"):
                                    ds = cl.call_at[x[0][2]]
                                    if cl.origins_of_operand(ds.args[0]) == cl._call_origins(gets[0], (("variant", "Some"), ("field", 0)), frozenset()):
                                        ok = True
                if ok:
                    ctx.ok()
                else:
                    ctx.viol((cl.id, "rules-body"), "the 200 body of the rules endpoint is not download_string() of the looked-up vector", b.where)
            else:
                # the buffer filled by read_to_end on the opened entry
                ok = bool(reads) and cl.vars_of_operand(b.args[1]) == cl.vars_of_operand(reads[0].args[1])
                if ok:
                    fo = cl.origins_of_operand(reads[0].args[0])
                    ok = all(is_call(o, "cache::SysCache::<SystemType>::open") and o[1:] == (("variant", "Ok"), ("field", 0)) for o in fo)
                if ok:
                    ctx.ok()
                else:
                    ctx.viol((cl.id, "files-body"), "the 200 body of the files endpoint is not the content read from the opened cache entry", b.where)
    # download_string = human_readable of every info, joined by "\n", in order
    ds = ctx.P.fn("blob::FileStateVec::download_string")
    ctx.inst("download_string", ds.where(0))
    j = [c for c in ds.calls if "join" in c.path]
    if not j:
        # built some other way (a hand-written join with push_str and a `first` flag, fold,
        # ..): this reader follows `collect + join("\n")` only
        raise AnalysisError("idiom not recognised: %s does not build its result with join" % ds.id)
    okj = False
    for c in j:
        sep = _const_bytes_of(ds, c.args[1])
        if sep != b"\n":
            continue
        vec = ds.vars_of_operand(c.args[0])
        veco = ds.origins_of_operand(c.args[0])
        for lp in ds.loops():
            if not (lp["iter"] and all(o[0][0] == "param" and ("field", "infos") in o and not any(st[0] == "truncate" for st in o) for o in lp["iter"])):
                continue
            pushes = [p2 for p2 in ds.calls_to("std::vec::Vec::<T, A>::push") if p2.bb in lp["body"] and
                      (ds.vars_of_operand(p2.args[0]) == vec or ds.origins_of_operand(p2.args[0]) == veco)]
            good = [p2 for p2 in pushes if all(is_call(o, "ticket::Ticket::human_readable") and
                                               ds.origins_of_operand(ds.call_at[o[0][2]].args[0]) == {e + (("field", "ticket"),) for e in lp["elem"]}
                                               for o in ds.origins_of_operand(p2.args[1])) and ds.origins_of_operand(p2.args[1])]
            if good and ds.every_iteration_calls(lp, [p2.bb for p2 in good]) and not ds.loop_exits(lp) and len(pushes) == len(good):
                okj = True
        if not okj:
            src = ds.origins_of_operand(c.args[0])
            if all(any(st == ("field", "infos") for st in o) and not any(st[0] == "truncate" for st in o) for o in _through_collect(ds, src)) and src \
                    and all(is_call(o, "std::iter::Iterator::collect") for o in src):
                okj = True
    if not okj and any(lp["iter"] and all(o[0][0] == "param" and ("field", "infos") not in o for o in lp["iter"]) for lp in ds.loops()):
        # `self.into_iter()` through an `impl IntoIterator for &FileStateVec` of the crate's own:
        # what that yields is in the impl, which this reader does not follow
        raise AnalysisError("idiom not recognised: %s walks the vector through an iterator of its own, not through `infos`" % ds.id)
    if okj:
        ctx.ok()
    else:
        ctx.viol((ds.id, "download-string-shape"), "download_string is not the newline-joined hashes of all infos in order", ds.where(0))
    # the rule endpoint looks up (rule ticket, source ticket) in this order
    for cl in _endpoints(ctx):
        for g in [c for c in cl.calls if c.path == "history::RuleHistory::get_file_state_vec"]:
            ho = cl.origins_of_operand(g.args[0])
            ko = cl.origins_of_operand(g.args[1])
            rh = [c for c in cl.calls if c.path.endswith("read_rule_history")]
            if rh:
                rk = cl.origins_of_operand(rh[0].args[1])
                p_r = {cl.call_at[o[0][2]].args[0]["place"]["local"] for o in rk if is_call(o, "ticket::Ticket::from_human_readable")}
                p_s = {cl.call_at[o[0][2]].args[0]["place"]["local"] for o in ko if is_call(o, "ticket::Ticket::from_human_readable")}
                ro = set()
                for l in p_r:
                    ro |= cl._origins(l, (), frozenset())
                so = set()
                for l in p_s:
                    so |= cl._origins(l, (), frozenset())
                ctx.inst("rule/source order", g.where)
                if ro == {(("param", 2),)} and so == {(("param", 3),)}:
                    ctx.ok()
                else:
                    ctx.viol((cl.id, "rule-source-swapped"), "the rules endpoint does not use path segment 1 as the rule and segment 2 as the sources hash", g.where)


def _through_collect(f, origins):
    out = set()
    for o in origins:
        if is_call(o, "std::iter::Iterator::collect"):
            c = f.call_at[o[0][2]]
            out |= f.origins_of_operand(c.args[0])
        else:
            out.add(o)
    return out


# ------------------------------------------------------------------------------ C20

BANNERS = {"Recovered": "Recovered", "AlreadyCorrect": "Up-to-date", "Downloaded": "Downloaded", "NeedsRebuild": "Outdated"}


@rule("C20.R1", floor=4)
def c20_r1(ctx):
    """Banner table: the match from FileResolution to banner text maps Recovered ->
    "Recovered", AlreadyCorrect -> "Up-to-date" (Downloaded / Outdated accordingly), and the
    banner printed under WorkOption::CommandExecuted is "Built"."""
    R = Roles(ctx.P)
    e = R.entry("build")
    prints = [c for c in e.calls if c.trait == "printer::Printer" and c.name == "print_single_banner_line"]
    ctx.need(prints, "status prints")
    seen_built = False
    for p in prints:
        # candidates for the banner text: constants flowing into arg 1
        texts = _banner_texts(e, p.args[1])
        # is this print under a switch on a FileResolution?
        tbl = {}
        for bb in e.live:
            info = e.switch_info(bb)
            if info and info["kind"] == "variant" and info.get("adt") == "blob::FileResolution" and not e.is_drop_switch(bb) and p.bb in e.reach([bb]):
                names = e.variant_names(info["adt"])
                for v, d in info["targets"]:
                    # the constant assigned in the arm
                    arm = e.reach([d], avoid_blocks=[p.bb])
                    consts = set()
                    for b in arm:
                        if not e.dominated_by_edges(b, {(bb, d)}) and b != d:
                            continue
                        for s in e.blocks[b]["stmts"]:
                            if s["k"] == "assign" and s["rv"]["k"] == "aggregate" and s["rv"]["kind"]["k"] == "tuple":
                                for o in s["rv"]["ops"]:
                                    bs = _const_bytes_of(e, o) if o["k"] == "const" or True else None
                                    if bs is not None:
                                        consts.add(bs.decode("utf8", "replace").strip())
                            if s["k"] == "assign" and s["rv"]["k"] == "use" and s["rv"]["op"]["k"] == "const" and "bytes" in s["rv"]["op"]:
                                consts.add(bytes(s["rv"]["op"]["bytes"]).decode("utf8", "replace").strip())
                    tbl[names.get(v, str(v))] = consts
        if tbl:
            for var, want in BANNERS.items():
                ctx.inst("banner for %s" % var, p.where)
                got = tbl.get(var)
                if got == {want}:
                    ctx.ok()
                else:
                    ctx.viol((e.id, "banner", var), "a target whose resolution is %s is reported as %s, not as \"%s\"" % (var, sorted(got or []), want), p.where)
        else:
            ctx.inst("banner under CommandExecuted", p.where)
            t = {x.strip() for x in texts}
            ce = e.edges_variant(lambda info, nm, oth, rest: info.get("adt") == "work::WorkOption" and nm == "CommandExecuted")
            if t == {"Built"} and e.dominated_by_edges(p.bb, ce):
                ctx.ok()
                seen_built = True
            else:
                ctx.viol((e.id, "banner", "CommandExecuted"), "the status printed when the command ran is %s (expected \"Built\" under CommandExecuted)" % sorted(t), p.where)
    # the "Built" lines are printed whenever the command succeeded
    ce = e.edges_variant(lambda info, nm, oth, rest: info.get("adt") == "work::WorkOption" and nm == "CommandExecuted")
    for p in prints:
        if {x.strip() for x in _banner_texts(e, p.args[1])} != {"Built"} or not e.dominated_by_edges(p.bb, ce):
            continue
        # and it is printed whenever the command succeeded: the only way past the loop over
        # the targets is an edge on which `output.success` is false
        after = [c2.bb for c2 in e.calls if c2.path.endswith("::insert_blob")]
        lps2 = [lp2 for lp2 in e.loops() if p.bb in lp2["body"]]
        if after and lps2:
            lp2 = min(lps2, key=lambda l: len(l["body"]))
            sfalse = set()
            for bb in e.live:
                info2 = e.switch_info(bb)
                if info2 and info2.get("origins") and all(o[-1] == ("field", "success") for o in info2["origins"]):
                    sfalse |= e._bool_edges(info2, False)
            if any(a2 in e.reach([x for (_, x) in ce], avoid_blocks=[lp2["header"]], avoid_edges=sfalse) for a2 in after):
                ctx.viol((e.id, "built-not-reported"), "a rule whose command ran and succeeded can get no status line for its targets: something other than `output.success` (what the command wrote to stderr, say) decides whether \"Built\" is printed", p.where)
    # the per-target print is under the Resolutions arm
    res_e = e.edges_variant(lambda info, nm, oth, rest: info.get("adt") == "work::WorkOption" and nm == "Resolutions")
    for p in prints:
        texts = {x.strip() for x in _banner_texts(e, p.args[1])}
        if texts and texts <= set(BANNERS.values()):
            if not e.dominated_by_edges(p.bb, res_e):
                ctx.viol((e.id, "resolution-banner-elsewhere"), "per-target resolution banners are printed outside the Resolutions arm", p.where)


def _banner_texts(f, op):
    out = set()
    seen = set()
    work = [op]
    while work:
        o = work.pop()
        if o["k"] == "const":
            b = _const_bytes_of(f, o)
            if b is not None:
                out.add(b.decode("utf8", "replace"))
            continue
        key = (o["place"]["local"], tuple((e["k"], e.get("i")) for e in o["place"]["proj"]))
        if key in seen:
            continue
        seen.add(key)
        fld = [e["i"] for e in o["place"]["proj"] if e["k"] == "field"]
        for (kind, bb, idx, place, payload) in f.defs.get(o["place"]["local"], ()):
            if kind != "assign":
                continue
            if place["proj"]:
                continue
            if payload["k"] == "use":
                x = payload["op"]
                if x["k"] == "const":
                    work.append(x)
                else:
                    work.append({"k": "copy", "place": {"local": x["place"]["local"], "proj": x["place"]["proj"] + o["place"]["proj"]}})
            elif payload["k"] == "ref":
                work.append({"k": "copy", "place": {"local": payload["place"]["local"], "proj": payload["place"]["proj"] + o["place"]["proj"]}})
            elif payload["k"] == "aggregate" and payload["kind"]["k"] == "tuple" and fld:
                if fld[0] < len(payload["ops"]):
                    work.append(payload["ops"][fld[0]])
    return out


@rule("C20.R3", floor=2)
def c20_r3(ctx):
    """One line per target, paired by index: the status print is reached exactly once per
    iteration of the traversal of blob.get_paths() of the joined result; the resolution
    printed beside path i is resolutions[i] with i that traversal's enumerate index, where
    resolutions is the payload of that result's WorkOption::Resolutions."""
    R = Roles(ctx.P)
    e = R.entry("build")
    j = e.calls_to(JOIN)[0]
    inner = e._call_origins(j, (("variant", "Ok"), ("field", 0), ("variant", "Ok"), ("field", 0)), frozenset())
    prints = [c for c in e.calls if c.trait == "printer::Printer" and c.name == "print_single_banner_line"]
    for p in prints:
        ctx.inst("status print loop", p.where)
        lps = [lp for lp in e.loops() if p.bb in lp["body"]]
        lp = min(lps, key=lambda l: len(l["body"])) if lps else None
        if lp is None:
            ctx.viol((e.id, "print-not-per-target"), "a status line is printed outside a loop over the targets", p.where)
            continue
        # collection: get_paths(result.blob)
        gp = None
        for o in lp["iter"]:
            if is_call(o, "blob::Blob::get_paths"):
                gp = e.call_at[o[0][2]]
        blob_of_result = {o + (("field", "blob"),) for o in inner}
        if gp is None and lp["iter"] and all(any(o[:len(b)] == b for b in blob_of_result) for o in lp["iter"]) \
                and not any(st[0] == "truncate" for o in lp["iter"] for st in o[1:]):
            # the finished rule's blob is traversed, but not as get_paths(): how a path is taken
            # from an element is not something this rule reads
            raise AnalysisError("idiom not recognised: the status lines of %s traverse the finished rule's blob directly, not blob.get_paths()" % e.id)
        cuts = {st[1] for o in lp["iter"] for st in o[1:] if st[0] == "truncate"}
        if gp is not None and e.origins_of_operand(gp.args[0]) == blob_of_result and cuts == {"zip"}:
            # the paths walked in step with another sequence (the resolutions): it ends where
            # the shorter one ends, and that the other is as long is not read off here
            raise AnalysisError("idiom not recognised: the status lines of %s walk the blob's paths zipped with another sequence" % e.id)
        if gp is None or e.origins_of_operand(gp.args[0]) != blob_of_result or any(st[0] == "truncate" for o in lp["iter"] for st in o[1:]):
            ctx.viol((e.id, "print-other-collection"), "status lines are not printed for exactly the paths of the finished rule's blob (iterates %s)" % sorted(map(fmt_origin, lp["iter"])), e.where(lp["header"]))
            continue
        if not e.every_iteration_calls(lp, [p.bb]) or e.on_cycle(p.bb) and any(p.bb in l["body"] for l in lps if l["header"] != lp["header"] and l["header"] in lp["body"]):
            ctx.viol((e.id, "print-skipped"), "a target of a finished rule can get no status line", p.where)
            continue
        others = [q for q in prints if q is not p and q.bb in lp["body"]]
        if others:
            ctx.viol((e.id, "print-twice"), "a target can get two status lines", others[0].where)
            continue
        enum = any(o[-1] == ("adapt", "enumerate") for o in lp["iter"])
        # the path printed is this iteration's
        po = e.origins_of_operand(p.args[3])
        want_p = {el + ((("field", 1),) if enum else ()) for el in lp["elem"]}
        if po != want_p:
            ctx.viol((e.id, "print-other-path"), "the path printed is not this iteration's target", p.where)
            continue
        if enum:
            # resolutions[i]
            idxs = [c for c in e.calls if "Index" in c.path and c.bb in lp["body"] and "FileResolution" in (c.callee.get("full") or "")]
            good = False
            for ix in idxs:
                if e.origins_of_operand(ix.args[1]) == {el + (("field", 0),) for el in lp["elem"]} and \
                        e.origins_of_operand(ix.args[0]) == {o + (("field", "work_option"), ("variant", "Resolutions"), ("field", 0)) for o in inner}:
                    good = True
            if not good:
                ctx.viol((e.id, "resolution-index"), "the status printed beside path i is not resolutions[i] of the same result", p.where)
                continue
        ctx.ok()


@rule("C19.R6", floor=1)
def c19_r6(ctx):
    """Only a regular file is opened for serving: in the cache's by-ticket open (the entry
    point of the files endpoint) the System::open of the entry path lies on the true edge of
    `is_file` of that same path, and the false edge answers NotThere.  (The cache also holds
    directories - displaced directory targets - and opening one succeeds on a real file
    system: the request would end in a read error and a 500 instead of a clean 404.)"""
    fs = [f for f in prod(ctx.P) if f.body["span"]["file"].endswith("cache.rs") and sys_calls(f, "open")
          and "OpenError" in f.body.get("output", {}).get("s", "") and not sys_calls(f, "create_file")]
    ctx.need(len(fs) == 1, "the cache's by-ticket open")
    f = fs[0]
    ctx.saw(f)
    for op in sys_calls(f, "open"):
        ctx.inst("open of a cache entry", op.where)
        po = f.origins_of_operand(op.args[1])
        tests = [c for c in sys_calls(f, "is_file") if f.origins_of_operand(c.args[1]) == po]
        yes = set()
        no = set()
        for t in tests:
            yes |= f.bool_edges_of_call(t, True)
            no |= f.bool_edges_of_call(t, False)
        if not tests or not f.dominated_by_edges(op.bb, yes):
            ctx.viol((f.id, "entry-opened-without-is-file"), "a cache entry is opened for serving without having been found to be a regular file: the hash of a cached directory opens successfully on a real file system and the request ends in a read error (500), not in 404", op.where)
            continue
        r = f.reach([x for (_, x) in no])
        nt = [bb for (bb, idx, rv, pl) in f.constructs("cache::OpenError", "NotThere") if bb in r]
        esc = f.reach([x for (_, x) in no], avoid_blocks=nt)
        if (not nt or any(b in esc for b in f.return_blocks)) and \
                any(h.split("::{closure")[0] == f.id for (h, w) in getattr(ctx.P.facts, "inlined", [])):
            # the answer is computed in a helper as a value of its own and converted afterwards
            # (`find_entry(..)?` with `impl From<Absent> for OpenError`): which arm of the conversion
            # belongs to which outcome of the test is not followed
            raise AnalysisError("idiom not recognised: in %s the outcome of the is_file test reaches the answer through a merged helper / conversion" % f.id)
        if not nt or any(b in esc for b in f.return_blocks):
            ctx.viol((f.id, "not-a-file-not-notthere"), "an entry that is not a regular file is not answered with NotThere", op.where)
        else:
            ctx.ok()


@rule("C19.R7", floor=1)
def c19_r7(ctx):
    """What the server answers is what is on disk now: the objects the endpoints look things up
    through (`History`, `SysCache`) carry no memo - no field of a container or interior-
    mutability type - so a record written by a `ruler build` after the server started is seen
    by the next request."""
    memo = ("HashMap<", "BTreeMap<", "HashSet<", "BTreeSet<", "Vec<", "VecDeque<", "RefCell<", "Cell<", "Mutex<", "RwLock<", "OnceCell<", "OnceLock<", "Arc<")
    n = 0
    for path in ("history::History", "cache::SysCache"):
        a = ctx.P.facts.adts.get(path)
        if a is None:
            continue
        n += 1
        ctx.inst("fields of %s" % path)
        bad = [fl for fl in a["variants"][0]["fields"] if any(m in fl["ty"]["s"] for m in memo)]
        if bad:
            ctx.viol((path, "lookup-object-has-memo", bad[0]["name"]), "%s has a field `%s : %s`: an object that lives as long as the server can remember what it read, and then answers a request from memory instead of from the files a later build has written" % (path, bad[0]["name"], bad[0]["ty"]["s"][:80]))
        else:
            ctx.ok()
    ctx.need(n, "the History / SysCache types")


@rule("C19.R5", floor=2)
def c19_r5(ctx):
    """Route shape: the filter each endpoint closure is mapped over is a chain containing the
    method filter `get`, one static segment, exactly as many `param::<String>()` as the
    closure has request parameters, and `path::end()` - without `end()` a request with extra
    path segments (`/files/<hash>/../x`) would be served."""
    R = Roles(ctx.P)
    s = R.entry("serve")
    eps = {c.id for c in _endpoints(ctx)}
    hosts = [f for f in ctx.P.fns.values() if f.id.startswith(s.id) and any(c.path == "warp::Filter::map" for c in f.calls)]
    ctx.need(hosts, "the function building the warp filters")
    for f in hosts:
        for m in [c for c in f.calls if c.path == "warp::Filter::map"]:
            cl = None
            for o in f.origins_of_operand(m.args[1]):
                if o[0][0] == "agg" and o[0][4] == "closure":
                    cl = f.blocks[o[0][2]]["stmts"][o[0][3]]["rv"]["kind"]["body"]
            if cl not in eps:
                continue
            ctx.inst("route of %s" % cl, m.where)
            leaves = []
            seen = set()

            def collect(op):
                for o in f.origins_of_operand(op):
                    if o[0][0] != "call" or len(o) != 1:
                        leaves.append("?" + fmt_origin(o))
                        continue
                    c = f.call_at[o[0][2]]
                    if c.bb in seen:
                        continue
                    seen.add(c.bb)
                    if c.path == "warp::Filter::and":
                        collect(c.args[0])
                        collect(c.args[1])
                    else:
                        leaves.append(c.path)
            collect(m.args[0])
            nparams = ctx.P.fns[cl].nargs - 1
            n_end = leaves.count("warp::filters::path::end")
            n_par = leaves.count("warp::filters::path::param")
            n_static = leaves.count("warp::filters::path::path")
            n_get = leaves.count("warp::filters::method::get")
            other = [x for x in leaves if x not in ("warp::filters::path::end", "warp::filters::path::param", "warp::filters::path::path",
                                                     "warp::filters::method::get", "warp::filters::any::any")]
            if n_end != 1:
                ctx.viol((f.id, "route-without-end", cl), "the route of this endpoint does not end with path::end(): requests with extra path segments are served instead of answered 404", m.where)
            elif n_par != nparams or n_static != 1 or n_get != 1 or other:
                ctx.viol((f.id, "route-shape", cl), "the route is not GET /<static>/<%d names>/end (found %s)" % (nparams, leaves), m.where)
            else:
                ctx.ok()


@rule("C16.R4", floor=2)
def c16_r4(ctx):
    """What is decoded is the file: the byte buffer given to bincode::deserialize is filled
    only by `read_to_end` on the opened state file (or by a chunk loop that appends exactly
    buffer[..n] of each read); nothing else is appended to it."""
    de = [c for f in prod(ctx.P) for c in f.calls if c.path.endswith("bincode::deserialize")]
    ctx.need(de, "deserialize sites")
    for c in de:
        f = c.fn
        ctx.inst("decoded buffer in %s" % f.id, c.where)
        fam = {o for o in f.var_family(c.args[0]) if o[0][0] == "var" and len(o) == 1}
        buf = f.vars_of_operand(c.args[0])

        def is_buf(op):
            v = f.vars_of_operand(op)
            return v == buf or (bool(v) and v <= fam)
        writers = []
        for x in f.calls:
            if not x.args or x is c:
                continue
            if is_buf(x.args[0]) or (len(x.args) > 1 and is_buf(x.args[1])):
                if erase_generics(x.path) in ("std::vec::Vec::new", "std::ops::Deref::deref", "std::vec::Vec::len"):
                    continue
                writers.append(x)
        ok = True
        n_fill = 0
        for x in writers:
            if x.path == "std::io::Read::read_to_end" and is_buf(x.args[1]):
                fo = f.origins_of_operand(x.args[0])
                if all(is_call(o, "system::System::open") and o[1:] == (("variant", "Ok"), ("field", 0)) for o in fo) and fo:
                    n_fill += 1
                    continue
                ok = False
                ctx.viol((f.id, "decodes-other-file"), "the bytes decoded are not read from the opened state file", x.where)
            elif x.name in ("extend_from_slice", "extend", "push", "append", "resize", "insert", "write", "write_all"):
                # accept exactly buffer[..n] of a read on that buffer
                good = False
                if x.name == "extend_from_slice":
                    for o in f.origins_of_operand(x.args[1]):
                        if is_call(o) and "Index" in o[0][3] and "RangeTo" in (f.call_at[o[0][2]].callee.get("full") or ""):
                            ix = f.call_at[o[0][2]]
                            for r in f.origins_of_operand(ix.args[1]):
                                if r[0][0] == "agg":
                                    rv = f.blocks[r[0][2]]["stmts"][r[0][3]]["rv"]
                                    so = f.origins_of_operand(rv["ops"][0])
                                    if so and all(is_call(z, "std::io::Read::read") and z[1:] == (("variant", "Ok"), ("field", 0)) for z in so):
                                        good = True
                if good:
                    n_fill += 1
                else:
                    ok = False
                    ctx.viol((f.id, "decoded-bytes-padded"), "bytes that were not read from the state file are appended to the buffer that is decoded (`%s`): a truncated file can decode successfully" % x.name, x.where)
        if ok and n_fill >= 1:
            ctx.ok()
        elif ok:
            ctx.viol((f.id, "decoded-buffer-unfilled"), "cannot see the state file being read into the decoded buffer", c.where)


@rule("C16.R6", floor=2)
def c16_r6(ctx):
    """A state file is written whole: in the functions that serialise state (those calling
    bincode::serialize, and the local helpers they hand the bytes to), the bytes go to the file
    through `write_all`; a plain `write` - which may accept only a part of the buffer - is
    accepted only if the count it returns is examined.  (A torn prefix renamed into place is
    rejected by the next invocation: what was recorded is not read back.)"""
    P = ctx.P
    ser = {f.id for f in prod(P) if any(c.path.endswith("bincode::serialize") for c in f.calls)}
    ctx.need(len(ser) >= 2, "functions serialising state")
    scope = set(ser)
    for fid in ser:
        for c in P.fns[fid].calls:
            for t in P.local_targets(c):
                tf = P.fns.get(t)
                if tf is not None and not tf.body.get("in_test") and any(x.path.startswith("std::io::Write::") for x in tf.calls):
                    scope.add(t)
    n = 0
    for fid in sorted(scope):
        f = P.fns[fid]
        for c in f.calls:
            if c.path == "std::io::Write::write_all":
                n += 1
                ctx.saw(f)
                ctx.inst("write_all in %s" % fid, c.where)
                ctx.ok()
            elif c.path == "std::io::Write::write":
                n += 1
                ctx.saw(f)
                ctx.inst("write in %s" % fid, c.where)
                cnt = f._call_origins(c, (("variant", "Ok"), ("field", 0)), frozenset())
                used = False
                for b in f.blocks:
                    if b["cleanup"] or b["i"] not in f.live:
                        continue
                    for st in b["stmts"]:
                        if st["k"] == "assign" and st["rv"]["k"] in ("binop", "use", "cast") and not (st["rv"]["k"] == "use" and st["rv"]["op"]["k"] == "const"):
                            ops = [st["rv"].get("a"), st["rv"].get("b"), st["rv"].get("op")]
                            for o in ops:
                                if isinstance(o, dict) and o.get("k") in ("copy", "move") and f.origins_of_operand(o) == cnt:
                                    used = True
                    info = f.switch_info(b["i"])
                    if info and info.get("origins") == cnt:
                        used = True
                if used:
                    raise AnalysisError("idiom not recognised: %s writes state with `write` and examines the count itself (the rule reads write_all only)" % fid)
                ctx.viol((fid, "state-written-with-write"), "the state file is written with `write` and the number of bytes accepted is ignored: a short write leaves a torn file that is reported as saved, and the next invocation rejects it", c.where)
    ctx.need(n >= 1, "write sites of the state writers")
    # every serialising function has a write site of its own or in a helper it calls
    for fid in sorted(ser):
        own = {fid} | {t for c in P.fns[fid].calls for t in P.local_targets(c)}
        if not any(x.path.startswith("std::io::Write::write") for g in own if g in P.fns for x in P.fns[g].calls):
            raise AnalysisError("C16.R6: anchor missing: where %s writes the bytes it serialises" % fid)


@rule("C16.R7", floor=1)
def c16_r7(ctx):
    """What is held is what is saved: the function that writes the file-state table returns Ok
    only after the rename that puts the new file in place - it has no path that skips the
    write (a "nothing changed" flag that some mutation forgets to set leaves the old file,
    with entries the table no longer holds, for the next invocation to read back)."""
    f = ctx.P.fns.get("current::CurrentFileStates::<SystemType>::to_file")
    ctx.need(f is not None, "CurrentFileStates::to_file")
    ctx.saw(f)
    rn = sys_calls(f, "rename")
    ctx.need(rn, "the rename that puts the table in place")
    ctx.inst("table saved", rn[0].where)
    ok_e = set()
    for r in rn:
        ok_e |= f.edges_of_call_variant(r, "Ok")
    bad = [(bb, idx) for (bb, idx, rv, pl) in f.constructs("std::result::Result", "Ok") if pl["local"] == 0 and not f.dominated_by_edges(bb, ok_e)]
    if bad and any(h.split("::{closure")[0] == f.id for (h, w) in getattr(ctx.P.facts, "inlined", [])):
        # the write protocol lives in a merged helper whose result is converted on the way out:
        # which Ok belongs to the rename's success is not followed through the merge
        raise AnalysisError("idiom not recognised: %s saves the table through a merged helper whose result is re-wrapped" % f.id)
    if bad:
        ctx.viol((f.id, "table-save-skipped"), "the table can be reported as saved without having been written: the file of an earlier invocation stays, and the next one reads back states this one no longer held", f.where(bad[0][0], bad[0][1]))
    else:
        ctx.ok()


@rule("C16.R5", floor=3)
def c16_r5(ctx):
    """The derived encoders of the state types write every field unconditionally: bincode is
    positional, so a field that is skipped when empty (`skip_serializing_if`) makes a valid
    state unreadable; the derived decoders fill no field from a default."""
    state_types = ("history::RuleHistory", "blob::FileStateVec", "blob::FileState", "ticket::Ticket", "current::CurrentFileStatesInside")
    for f in ctx.P.fns.values():
        if f.body.get("in_test") or f.kind == "promoted":
            continue
        it = f.body.get("impl_trait")
        st = (f.body.get("impl_self_ty") or {}).get("s")
        if it == "serde::Serialize" and st in state_types:
            ctx.inst("derived Serialize for %s" % st, f.where(0))
            a = ctx.P.facts.adts.get(st)
            nfields = len(a["variants"][0]["fields"]) if a else None
            sf = [c for c in f.calls if c.name == "serialize_field"]
            skips = [c for c in f.calls if c.name == "skip_field"]
            ends = [c for c in f.calls if c.name == "end"]
            if skips:
                ctx.viol((st, "field-skipped-when-serialising"), "a field of %s can be left out of the positional (bincode) encoding: what one invocation records is not read back by the next" % st, skips[0].where)
            elif nfields is not None and sf and (len(sf) != nfields or (ends and not all(f.dominated_by_blocks(ends[0].bb, [c.bb]) for c in sf))):
                ctx.viol((st, "field-not-always-serialised"), "%s does not write each of its %d field(s) on every path" % (st, nfields), sf[0].where)
            else:
                ctx.ok()
    for f in ctx.P.fns.values():
        if f.body.get("in_test") or f.kind == "promoted":
            continue
        if "serde::Deserialize" in f.id and any(t in f.id for t in state_types) and "visit_seq" in f.id:
            ctx.inst("derived visit_seq %s" % f.id, f.where(0))
            d = [c for c in f.calls if c.path == "std::default::Default::default" or c.name == "default"]
            if d:
                ctx.viol((f.id, "field-defaulted-when-deserialising"), "a missing field of a state type is filled with a default: a truncated state file can be read as valid data", d[0].where)
            else:
                ctx.ok()
