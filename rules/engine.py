"""Rule registry, run context, reporting."""
import json
import os
import time
import hashlib
from lib.mir import AnalysisError, fmt_origin

RULES = {}          # id -> (fn, floor, doc)


NO_SIGNATURE_GUARD = set()   # rules that read no argument of a pinned function by position


def rule(rid, floor=1, shared_doc=None, positional=True):
    def deco(fn):
        RULES[rid] = (fn, floor, (fn.__doc__ or "").strip())
        if not positional:
            NO_SIGNATURE_GUARD.add(rid)
        return fn
    return deco


class Violation:
    def __init__(self, rule, key, msg, site, detail=None):
        self.rule = rule
        self.key = key
        self.msg = msg
        self.site = site
        self.detail = detail or {}


class RuleCtx:
    """Handed to each rule.  `inst` records a sink/instance the rule judged (vacuity floor),
    `ok` a discharged obligation, `viol` a violation (keyed without line numbers)."""

    def __init__(self, P, rid, env):
        self.P = P
        self.rid = rid
        self.env = env
        self.instances = []
        self.discharged = 0
        self.violations = []
        self.notes = []
        self.fns_seen = set()
        self.call_sites = 0

    def inst(self, descr, site=None):
        self.instances.append({"what": descr, "site": site})

    def ok(self, n=1):
        self.discharged += n

    def viol(self, key, msg, site=None, **detail):
        self.violations.append(Violation(self.rid, key, msg, site, detail))

    def note(self, text):
        self.notes.append(text)

    def saw(self, fn):
        self.fns_seen.add(fn.id if hasattr(fn, "id") else fn)

    def need(self, cond, what):
        if not cond:
            raise AnalysisError("%s: anchor missing: %s" % (self.rid, what))


_changed_cache = {}


def changed_signatures(P):
    """{fn id: what changed} for functions of the pinned API present under their name with
    other parameter or result types."""
    key = id(P)
    if key in _changed_cache:
        return _changed_cache[key]
    here = os.path.dirname(os.path.abspath(__file__))
    with open(os.path.join(here, "api_signatures.json")) as f:
        api = json.load(f)["functions"]
    out = {}
    for name, s in api.items():
        f = P.fns.get(name)
        if f is None or f.body.get("in_test"):
            continue
        def norm(t):
            # `&Vec<T>` / `&[T]` and `&String` / `&str` are read alike
            import re
            t = re.sub(r"&(mut )?std::vec::Vec<(.*)>$", lambda m: "&%s[%s]" % (m.group(1) or "", m.group(2)), t)
            return t.replace("&std::string::String", "&str")
        ins = [norm(t["s"]) for t in f.body.get("inputs", [])]
        o = f.body.get("output", {}).get("s")
        old_ins = [norm(t) for t in s["inputs"]]
        # (parameters added at the end leave the positions of the pinned ones alone)
        if ins[:len(old_ins)] != old_ins:
            out[name] = "parameters (%s) were (%s)" % (", ".join(ins)[:120], ", ".join(s["inputs"])[:120])
        elif o != s["output"]:
            out[name] = "result %s was %s" % (o, s["output"])
    _changed_cache.clear()
    _changed_cache[key] = out
    return out


_vanished_cache = {}


def vanished_functions(P):
    """Functions of the pinned API that are not in the program under any name the loader maps back."""
    key = id(P)
    if key in _vanished_cache:
        return _vanished_cache[key]
    here = os.path.dirname(os.path.abspath(__file__))
    with open(os.path.join(here, "api_signatures.json")) as f:
        api = json.load(f)["functions"]
    out = sorted(n for n in api if n not in P.fns)
    _vanished_cache.clear()
    _vanished_cache[key] = out
    return out


def run_rules(P, rule_ids, env=None):
    """Run rules; returns list of per-rule result dicts."""
    env = env or {}
    results = []
    for rid in rule_ids:
        fn, floor, doc = RULES[rid]
        ctx = RuleCtx(P, rid, env)
        err = None
        t0 = time.time()
        try:
            fn(ctx)
        except AnalysisError as e:
            err = str(e)
        except (IndexError, KeyError, TypeError, ValueError, AttributeError, StopIteration) as e:
            # a rule that trips over a shape it did not expect has not decided anything
            import traceback
            tb = traceback.extract_tb(e.__traceback__)[-1]
            err = "%s: idiom not recognised (the rule could not read the code: %s at %s:%d)" % (rid, type(e).__name__, tb.filename.split("/")[-1], tb.lineno)
        # A function of the pinned API whose signature changed: rules read the arguments of
        # its calls (and its parameters) by position, so what they conclude about it, or about
        # a function calling it, is not a reading of the code: not judged.
        changed = changed_signatures(P)
        if ctx.violations and rid not in NO_SIGNATURE_GUARD:
            kept = []
            for v in ctx.violations:
                fid = v.key[0] if isinstance(v.key, (tuple, list)) and v.key else None
                f = P.fns.get(fid) if isinstance(fid, str) else None
                rel = set()
                if f is not None:
                    rel.add(f.id)
                    rel.add(f.body.get("root") or f.id)
                    for c in f.calls:
                        rel.update(P.local_targets(c))
                hit = sorted(rel & set(changed))
                gone = vanished_functions(P)
                hosts = {h for (h, w) in getattr(P.facts, "inlined", [])} if gone else set()
                hosts |= {h.split("::{closure")[0] for h in hosts}     # (a closure of F is part of F)
                absorbed = sorted(rel & hosts)
                if not absorbed and hosts and f is not None:
                    # ... or a function that the merged code now calls directly (what the vanished
                    # function did around that call is what the rule wanted to read)
                    root = f.body.get("root") or f.id
                    absorbed = sorted(h for h in hosts if h in P.fns and any(root in P.local_targets(c) or f.id in P.local_targets(c) for c in P.fns[h].calls))
                if absorbed and not hit:
                    # a function of the pinned tree no longer exists and new functions were merged
                    # into this one (or the one it calls): the rules that are anchored on the
                    # vanished function read its pieces in a place they were not written for
                    if err is None:
                        err = "%s: idiom not recognised: %s no longer exists as a function and new code was merged into %s; %s is not judged" % (rid, gone[0], absorbed[0], fid)
                    continue
                ind = sorted(x for x in rel if x in P.fns and any(c.path.startswith("<indirect") for c in P.fns[x].calls)) if not hit else []
                if ind:
                    # what a call through a function pointer does is not read: a violation about the
                    # function that makes it (or about its direct caller) is not a reading of the code
                    if err is None:
                        err = "%s: idiom not recognised: %s calls through a function pointer; %s is not judged" % (rid, ind[0], fid)
                elif hit:
                    if err is None:
                        err = "%s: idiom not recognised: the signature of %s changed (%s): the rule reads its arguments by position and does not judge %s" % (rid, hit[0], changed[hit[0]], fid)
                else:
                    kept.append(v)
            ctx.violations = kept
        if err is None and getattr(ctx, "open_obligations", None):
            k, m, site = ctx.open_obligations[0]
            err = "%s: %d open obligation(s), e.g. %s at %s: %s" % (rid, len(ctx.open_obligations), k, site, m)
        # `floor` documents the instance count confirmed by hand on the pinned tree; what is
        # enforced is non-vacuity: a rule that judged nothing cannot pass.  (A changed count is
        # not an alarm by itself: removing a guarded site is not a violation of its guard.)
        if err is None and floor > 0 and len(ctx.instances) < 1 and not ctx.violations:
            err = "%s: anchor missing: the rule found nothing to judge (counted %d on the pinned tree)" % (rid, floor)
        results.append({
            "rule": rid, "doc": doc, "floor": floor,
            "instances": ctx.instances, "discharged": ctx.discharged,
            "violations": ctx.violations, "error": err, "notes": ctx.notes,
            "functions": sorted(ctx.fns_seen), "wall_s": round(time.time() - t0, 3),
        })
    return results
