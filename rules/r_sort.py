"""Rules about dependency sorting (sort.rs): C12.R1-R6."""
from engine import rule
from lib.mir import AnalysisError, fmt_origin, erase_generics

HM_GET = "std::collections::HashMap::<K, V, S, A>::get"
HM_INSERT = "std::collections::HashMap::<K, V, S, A>::insert"
HM_CONTAINS = "std::collections::HashMap::<K, V, S, A>::contains_key"


def lookup_edges(f, g, hit):
    """Edges on which the map lookup `g` (get / contains_key) found (hit) or missed the key."""
    if erase_generics(g.path).endswith("contains_key") or g.name == "contains_key":
        return f.bool_edges_of_call(g, hit)
    return f.edges_of_call_variant(g, "Some" if hit else "None")
HS_INSERT = "std::collections::HashSet::<T, S, A>::insert"
HS_REMOVE = "std::collections::HashSet::<T, S, A>::remove"
HS_CONTAINS = "std::collections::HashSet::<T, S, A>::contains"
VEC_PUSH = "std::vec::Vec::<T, A>::push"
VEC_POP = "std::vec::Vec::<T, A>::pop"
SORT = "std::slice::<impl [T]>::sort"
ERR = "sort::TopologicalSortError"


def _norm(path):
    """An ordered map / set used for look-ups is as good as the hash map / set it replaces: the
    sorter's rules are about which keys are looked up, inserted and removed."""
    return erase_generics(path).replace("BTreeMap", "HashMap").replace("BTreeSet", "HashSet")


def is_call(o, path=None):
    return o[0][0] == "call" and (path is None or o[0][3] == path or _norm(o[0][3]) == _norm(path))


def calls(f, path):
    return [c for c in f.calls if c.path == path or _norm(c.path) == _norm(path)]


def ty_of(f, op):
    """type of a place operand, through references"""
    if op["k"] not in ("copy", "move"):
        return ""
    t = f.local_ty(op["place"]["local"])["s"]
    fl = [e for e in op["place"]["proj"] if e["k"] == "field"]
    if fl:
        t = fl[-1].get("ty", t)
    return t.lstrip("&").replace("mut ", "").strip()


def sort_fns(P):
    return [f for f in P.fns.values() if f.body["span"]["file"].endswith("sort.rs") and not f.body.get("in_test")
            and f.kind != "promoted" and not f.body.get("derived")]


def err_sites(P, variant):
    return [(f, s) for f in sort_fns(P) for s in f.constructs(ERR, variant)]


@rule("C12.R1", floor=1)
def c12_r1(ctx):
    """Duplicate targets: every insertion into the target->rule map is on the None edge of a
    lookup of the same key in the same map; the Some edge returns TargetInMultipleRules for
    that key; every target of every rule goes through it."""
    sites = err_sites(ctx.P, "TargetInMultipleRules")
    ctx.need(sites, "TargetInMultipleRules construction")
    fns = {f.id: f for f, _ in sites}
    for f in fns.values():
        ctx.saw(f)
        # no rule may be discarded from the input before the check
        for c2 in f.calls:
            if c2.args and c2.name in ("dedup", "dedup_by", "dedup_by_key", "retain", "retain_mut", "truncate", "clear", "pop", "remove", "swap_remove", "split_off") \
                    and erase_generics(c2.path).startswith(("std::vec::Vec::", "core::slice::", "std::slice::")):
                ao = f.origins_of_operand(c2.args[0])
                if ao and all(o[0][0] == "param" and not any(st[0] in ("field", "next") for st in o[1:]) for o in ao):
                    ctx.viol((f.id, "rules-discarded-before-check", c2.name), "`%s` can drop rules from the input before the duplicate-target check: a path that is the target of two rules would be accepted" % c2.name, c2.where)
        ins = calls(f, HM_INSERT)
        gets = calls(f, HM_GET) + calls(f, HM_CONTAINS)
        ctx.need(ins and gets, "HashMap get/insert in %s" % f.id)
        for i in ins:
            ctx.inst("target map insert", i.where)
            guard = None
            for g in gets:
                if f.vars_of_operand(g.args[0]) == f.vars_of_operand(i.args[0]) and \
                        f.origins_of_operand(g.args[1]) == f.origins_of_operand(i.args[1]) and \
                        f.dominated_by_edges(i.bb, lookup_edges(f, g, False)):
                    guard = g
            if guard is None:
                ctx.viol((f.id, "duplicate-target-unchecked"), "a target is entered into the target map without a miss on the same key: a path that is the target of two rules would be accepted", i.where)
                continue
            some = lookup_edges(f, guard, True)
            errs = [(bb, idx) for (bb, idx, rv, pl) in f.constructs(ERR, "TargetInMultipleRules") if f.dominated_by_edges(bb, some)]
            r = f.reach([x for (_, x) in some])
            lps = [lp for lp in f.loops() if guard.bb in lp["body"]]
            if not errs or any(lp["header"] in f.reach([x for (_, x) in some], avoid_blocks=[bb for (bb, _) in errs]) for lp in lps):
                ctx.viol((f.id, "duplicate-target-accepted"), "a hit in the target map does not end in TargetInMultipleRules", guard.where)
                continue
            # the key inserted is the target string of this iteration of a complete loop over rule.targets
            tl = [lp for lp in lps if any(("field", "targets") in o for o in lp["iter"])]
            if not tl and guard.bb in f.reach_after(guard.bb, avoid_blocks=[lp["header"] for lp in lps]):
                # the check sits in a loop that is not a `for` over a collection (a counter loop
                # indexing the targets): the rule has no reader for what it traverses
                raise AnalysisError("idiom not recognised: the duplicate-target check of %s runs in a loop that is not a `for` over the rule's targets" % f.id)
            if not tl:
                ctx.viol((f.id, "duplicate-check-not-per-target"), "the duplicate check does not run for every target of every rule", i.where)
                continue
            lp = min(tl, key=lambda l: len(l["body"]))
            if any(st[0] == "truncate" for o in lp["iter"] for st in o[1:]) or not f.every_iteration_calls(lp, [guard.bb]):
                ctx.viol((f.id, "duplicate-check-skipped"), "some target can skip the duplicate check", guard.where)
                continue
            ko = f.origins_of_operand(i.args[1])
            want = {e + (("field", 1),) for e in lp["elem"]}
            if ko != want and not all(any(o[:len(w)] == w for w in want) for o in ko):
                ctx.viol((f.id, "duplicate-check-other-key"), "the key checked/inserted is not this iteration's target", i.where)
                continue
            # the outer loop covers all rules
            ol = [l for l in lps if l["header"] != lp["header"]]
            if not ol or any(st[0] == "truncate" for l in ol for o in l["iter"] for st in o[1:]):
                ctx.viol((f.id, "duplicate-check-not-all-rules"), "the duplicate check does not cover every rule", i.where)
                continue
            ctx.ok()


@rule("C12.R2", floor=1)
def c12_r2(ctx):
    """Goal must exist: the goal-restricted sort proceeds only on the Some edge of the lookup
    of the goal in the target map; None returns TargetMissing."""
    sites = err_sites(ctx.P, "TargetMissing")
    ctx.need(sites, "TargetMissing construction")
    for f, (bb, idx, rv, pl) in sites:
        if bb not in f.live:
            continue        # (the goal arm of a shared helper, inlined into the build-all entry)
        ctx.saw(f)
        ctx.inst("TargetMissing", f.where(bb, idx))
        gets = [g for g in calls(f, HM_GET) if all(o[0][0] == "param" for o in f.origins_of_operand(g.args[1]))]
        if not gets:
            ctx.viol((f.id, "goal-not-looked-up"), "the goal is not looked up in the target map", f.where(bb, idx))
            continue
        g = gets[0]
        none = f.edges_of_call_variant(g, "None")
        some = f.edges_of_call_variant(g, "Some")
        if not f.dominated_by_edges(bb, none):
            ctx.viol((f.id, "target-missing-unguarded"), "TargetMissing is not tied to a miss of the goal lookup", f.where(bb, idx))
            continue
        so = [c for c in f.calls if c.path.endswith("sort_once")]
        if not so or not all(f.dominated_by_edges(c.bb, some) for c in so):
            ctx.viol((f.id, "sort-without-goal"), "the goal-restricted sort can start although the goal is no rule's target", f.where(bb, idx))
            continue
        # the start indices come from that lookup
        pay = f._call_origins(g, (("variant", "Some"), ("field", 0)), frozenset())
        foreign = False
        for c in so:
            # (every search the goal-restricted sort starts: a second one, from a rule that was
            #  not looked up for the goal, puts rules outside the goal's scope into the plan)
            io = f.origins_of_operand(c.args[1])
            so_ = f.origins_of_operand(c.args[2])
            if io != {p + (("field", 0),) for p in pay} or so_ != {p + (("field", 1),) for p in pay}:
                walked = [o for o in io | so_ if any(st[0] == "next" for st in o[1:])]
                if walked and all(o[0][0] == "call" and ("vec" in o[0][3].lower() or o[0][3].endswith("::collect")) for o in walked):
                    # the starting points are first put into a collection and then walked
                    raise AnalysisError("idiom not recognised: %s hands the search its starting point through a collection" % f.id)
                foreign = True
                ctx.viol((f.id, "sort-start-foreign"), "the sort does not start at the goal's own rule / target index", c.where)
        if not foreign:
            ctx.ok()
        r = f.reach([x for (_, x) in none], avoid_blocks=[bb])
        if any(b in r for b in f.return_blocks):
            ctx.viol((f.id, "missing-goal-accepted"), "a miss of the goal lookup can return something other than TargetMissing", g.where)


@rule("C12.R3", floor=3)
def c12_r3(ctx):
    """Canonical plan: rules.sort() dominates the loop that numbers the rules; per rule,
    targets.sort() and sources.sort() dominate the frame construction; leaves are kept in a
    BTreeSet; no HashMap/HashSet iteration anywhere in the sorter (lookups only)."""
    fs = [f for f in sort_fns(ctx.P) if f.calls_to("sort::Frame::from_rule_and_index")]
    ctx.need(len(fs) == 1, "the function that turns rules into frames")
    f = fs[0]
    ctx.saw(f)
    fc = f.calls_to("sort::Frame::from_rule_and_index")[0]
    lps = [lp for lp in f.loops() if fc.bb in lp["body"]]
    ctx.need(lps, "rule loop")
    lp = max(lps, key=lambda l: len(l["body"]))
    sorts = f.calls_to(SORT)
    got = {"rules": False, "targets": False, "sources": False}
    for s in sorts:
        so = f.origins_of_operand(s.args[0])
        if all(o[0][0] == "param" and not any(st[0] == "field" for st in o[1:]) and not any(st[0] == "next" for st in o[1:]) for o in so):
            ctx.inst("rules.sort()", s.where)
            if s.bb not in lp["body"] and f.dominated_by_blocks(lp["header"], [s.bb]) and all(o[0] == x[0] for o in so for x in lp["iter"]):
                got["rules"] = True
        for fld in ("targets", "sources"):
            if so and all(any(o[:len(e)] == e for e in lp["elem"]) and o[-1] == ("field", fld) for o in so):
                ctx.inst("rule.%s.sort()" % fld, s.where)
                if f.dominated_by_blocks(fc.bb, [s.bb]) and s.bb in lp["body"]:
                    got[fld] = True
    for k, v in got.items():
        if v:
            ctx.ok()
        else:
            ctx.viol((f.id, "unsorted", k), "%s are not sorted before the plan is numbered: the plan (and every rule identity and sources hash derived from it) depends on the order of lines in the rules file" % k, f.where(lp["header"]))
    # every traversal of rule.targets / rule.sources that hands out positions (sub-indices) sees the sorted order
    for fld in ("targets", "sources"):
        srt = [s2 for s2 in sorts if all(any(o[:len(e)] == e for e in lp["elem"]) and o[-1] == ("field", fld) for o in f.origins_of_operand(s2.args[0])) and f.origins_of_operand(s2.args[0])]
        for l2 in f.loops():
            if l2["header"] == lp["header"] or l2["header"] not in lp["body"]:
                continue
            if l2["iter"] and all(any(o[:len(e)] == e for e in lp["elem"]) and ("field", fld) in o for o in l2["iter"]):
                ctx.inst("traversal of rule.%s" % fld, f.where(l2["header"]))
                if srt and f.dominated_by_blocks(l2["header"], [s2.bb for s2 in srt]):
                    ctx.ok()
                else:
                    ctx.viol((f.id, "positions-before-sort", fld), "positions in rule.%s are handed out before the list is sorted: the recorded sub-index then names a different target than the same position in the (sorted) node, so a dependent is sent a sibling target's hash" % fld, f.where(l2["header"]))
    # the frame is built from this iteration's (sorted) rule and the running index
    ro = f.origins_of_operand(fc.args[0])
    # `for (i, rule) in rules.drain(..).enumerate()`: the rule is the second component
    rule_elem = lp["elem"]
    if any(("adapt", "enumerate") in o for o in lp["iter"]):
        rule_elem = {e + (("field", 1),) for e in lp["elem"]}
    if ro != rule_elem:
        ctx.viol((f.id, "frame-foreign-rule"), "the frame is not built from this iteration's rule", fc.where)
    # one numbering: the index a rule's targets are filed under in the target map is the index
    # its frame carries (its position in the frame buffer)
    fi = f.origins_of_operand(fc.args[1])
    for ins in calls(f, HM_INSERT):
        if ins.bb not in lp["body"]:
            continue
        for o in f.origins_of_operand(ins.args[2]):
            if o[0][0] == "agg" and o[0][4] == "tuple":
                trv = f.blocks[o[0][2]]["stmts"][o[0][3]]["rv"]
                ctx.inst("index filed in the target map", ins.where)
                io = f.origins_of_operand(trv["ops"][0])
                if io == fi:
                    ctx.ok()
                else:
                    ctx.viol((f.id, "two-numberings"), "the rule index filed in the target map (%s) is not the index given to the rule's frame (%s): once they drift apart, a goal or a source is resolved to a different rule" % (sorted(map(fmt_origin, io))[:2], sorted(map(fmt_origin, fi))[:2]), ins.where)
    a = ctx.P.facts.adts.get("sort::TopologicalSortMachine")
    ctx.need(a is not None, "TopologicalSortMachine")
    for fld in a["variants"][0]["fields"]:
        if fld["name"] == "source_leaves":
            ctx.inst("leaf set type")
            if "BTreeSet" in fld["ty"]["s"]:
                ctx.ok()
            else:
                ctx.viol(("sort::TopologicalSortMachine", "leaves-unordered"), "source leaves are kept in %s: leaf order (hence channel wiring and thread order) is not canonical" % fld["ty"]["s"])
    import zero
    for (g, c) in zero.hash_order_iterations(sort_fns(ctx.P)):
        ctx.viol((g.id, "hash-order-iteration", c.name), "hash-order iteration in the sorter: the plan would differ between runs", c.where)


@rule("C12.R4", floor=2)
def c12_r4(ctx):
    """Source binding: each SourceIndex::Pair(n, s) has n = final_index of the frame-buffer
    entry selected by field 0 of the target-map entry for that very source and s = field 1
    of the same entry; Leaf(i) comes from the leaf map entry of that source; every source
    of every frame gets exactly one index."""
    fs = [f for f in sort_fns(ctx.P) if f.constructs("sort::SourceIndex", "Pair")]
    ctx.need(len(fs) == 1, "the function building SourceIndex::Pair")
    f = fs[0]
    ctx.saw(f)
    # (when the indices are gathered in several passes - reported below - there is no "loop over
    #  the sources" for the binding clauses to be read against: they are not reported on top)
    _pushes = [p for p in f.calls_to(VEC_PUSH) if "SourceIndex" in f.local_ty(p.args[1]["place"]["local"])["s"]]
    _inner = set()
    for pu in _pushes:
        lps = [lp for lp in f.loops() if pu.bb in lp["body"]]
        if lps:
            _inner.add(min(lps, key=lambda l: len(l["body"]))["header"])
    multi_pass = len(_inner) > 1
    for (bb, idx, rv, pl) in f.constructs("sort::SourceIndex", "Pair"):
        ctx.inst("Pair", f.where(bb, idx))
        n_o = f.origins_of_operand(rv["ops"][0])
        s_o = f.origins_of_operand(rv["ops"][1])
        ok = False
        for o in n_o:
            if is_call(o) and "Index" in o[0][3] and o[-1] == ("field", "final_index"):
                ix = f.call_at[o[0][2]]
                base = f.origins_of_operand(ix.args[0])
                i_o = f.origins_of_operand(ix.args[1])
                if all(b[-1] == ("field", "frame_buffer") for b in base):
                    ent = {x[:-1] for x in i_o if x[-1] == ("field", 0)}
                    ent_s = {x[:-1] for x in s_o if x[-1] == ("field", 1)}
                    if ent and ent == ent_s and len(i_o) == len(ent) and len(s_o) == len(ent_s):
                        # the entry is the lookup of this iteration's source in to_buffer_index
                        for e in ent:
                            root = e
                            # unwrap(get(map, &source))
                            if is_call(root, "std::option::Option::<T>::unwrap"):
                                uw = f.call_at[root[0][2]]
                                for g in f.origins_of_operand(uw.args[0]):
                                    if is_call(g, HM_GET):
                                        gc = f.call_at[g[0][2]]
                                        mo = f.origins_of_operand(gc.args[0])
                                        ko = f.origins_of_operand(gc.args[1])
                                        lps = [lp for lp in f.loops() if gc.bb in lp["body"]]
                                        inner = min(lps, key=lambda l: len(l["body"])) if lps else None
                                        if inner and all(m[-1] == ("field", "to_buffer_index") for m in mo) and ko == inner["elem"] \
                                                and all(("field", "sources") in x for x in inner["iter"]):
                                            ok = True
                            elif is_call(root, HM_GET) and root[1:] == (("variant", "Some"), ("field", 0)):
                                gc = f.call_at[root[0][2]]
                                lps = [lp for lp in f.loops() if gc.bb in lp["body"]]
                                inner = min(lps, key=lambda l: len(l["body"])) if lps else None
                                if inner and f.origins_of_operand(gc.args[1]) == inner["elem"]:
                                    ok = True
        if not ok and f.kind == "closure":
            # the binding is computed by a closure that something else calls once per source:
            # with which source is outside this function
            raise AnalysisError("idiom not recognised: %s binds sources in a closure called from elsewhere" % f.id)
        if ok:
            ctx.ok()
        elif multi_pass:
            pass
        else:
            ctx.viol((f.id, "pair-binding"), "SourceIndex::Pair is not (final index of the rule owning this source, index of this source among that rule's targets) - a dependent would wait for / hash the wrong producer target", f.where(bb, idx))
    for (bb, idx, rv, pl) in f.constructs("sort::SourceIndex", "Leaf"):
        ctx.inst("Leaf", f.where(bb, idx))
        lo = f.origins_of_operand(rv["ops"][0])
        ok = False
        for o in lo:
            if is_call(o, HM_GET) and o[1:] == (("variant", "Some"), ("field", 0)):
                gc = f.call_at[o[0][2]]
                lps = [lp for lp in f.loops() if gc.bb in lp["body"]]
                inner = min(lps, key=lambda l: len(l["body"])) if lps else None
                if inner and f.origins_of_operand(gc.args[1]) == inner["elem"] and f.dominated_by_edges(bb, f.edges_of_call_variant(gc, "Some")):
                    ok = True
        if ok:
            ctx.ok()
        elif multi_pass:
            pass
        else:
            ctx.viol((f.id, "leaf-binding"), "SourceIndex::Leaf is not the leaf-map entry of this very source", f.where(bb, idx))
    # every source gets an index: in the inner loop every iteration pushes exactly one SourceIndex
    pushes = [p for p in f.calls_to(VEC_PUSH) if "SourceIndex" in f.local_ty(p.args[1]["place"]["local"])["s"]]
    for lp in f.loops():
        if all(("field", "sources") in x for x in lp["iter"]) and lp["iter"]:
            if any(st[0] == "truncate" for o in lp["iter"] for st in o[1:]) or not f.every_iteration_calls(lp, [p.bb for p in pushes]) or f.loop_exits(lp):
                ctx.viol((f.id, "source-unbound"), "a source of a rule can be left without an index (the rule would not wait for it)", f.where(lp["header"]))
    # ... and in the order of the sources: one pass over the (sorted) sources fills the list, so
    # that position k of the list belongs to source k whatever kind of source it is
    inner_of = {}
    for pu in pushes:
        lps = [lp for lp in f.loops() if pu.bb in lp["body"]]
        if lps:
            inner_of[pu.bb] = min(lps, key=lambda l: len(l["body"]))["header"]
    if len(set(inner_of.values())) > 1:
        ctx.viol((f.id, "source-order"), "the indices of a rule's sources are gathered in more than one pass (by kind of source): their order, in which the sources' hashes are combined, then depends on which sources are produced by rules - the same source bytes give another sources hash once a rule for one of them is added or removed", pushes[0].where)
    # leaf numbering: leaf i is the i-th element of the ordered leaf set, counter starts at 0 and steps by 1
    # (checked structurally: the value inserted into the leaf map is a counter incremented once per iteration)


def _cycle_set(ctx, f):
    """The set whose `contains` guards the construction of CircularDependence."""
    sites = f.constructs(ERR, "CircularDependence")
    ctx.need(sites, "CircularDependence construction")
    cont = calls(f, HS_CONTAINS)
    for (bb, idx, rv, pl) in sites:
        for c in cont:
            if f.dominated_by_edges(bb, f.bool_edges_of_call(c, True)):
                return c, f.vars_of_operand(c.args[0]), (bb, idx)
    return None, None, sites[0][:2]


@rule("C12.R6", floor=2)
def c12_r6(ctx):
    """Both cyclic verdicts exist and are guarded: on the branch where a source's frame was
    already taken, SelfDependentRule is constructed under the edge `same buffer index` and
    CircularDependence under the true edge of the membership test of the cycle set; neither
    guard is constant."""
    fs = [f for f in sort_fns(ctx.P) if f.constructs(ERR, "CircularDependence")]
    ctx.need(len(fs) == 1, "the DFS function")
    f = fs[0]
    ctx.saw(f)
    c, S, site = _cycle_set(ctx, f)
    ctx.inst("CircularDependence", f.where(*site))
    if c is None and not [x for x in calls(f, HS_CONTAINS) + calls(f, HS_INSERT) + calls(f, HS_REMOVE) if "<usize" in ty_of(f, x.args[0])] \
            and any(l["ty"]["s"].replace(" ", "") in ("std::vec::Vec<bool>", "[bool]", "&mut[bool]", "std::boxed::Box<[bool]>") for l in f.body["locals"]):
        # the on-stack set kept as one flag per rule instead of a set of indices: a different
        # representation of the same information, which the rules about the set do not read
        raise AnalysisError("idiom not recognised: %s keeps no set of open frames but a table of flags" % f.id)
    if c is None:
        ctx.viol((f.id, "cycle-verdict-unguarded"), "CircularDependence is not guarded by a membership test of the on-stack set", f.where(*site))
    else:
        # the key tested is the buffer index of the source's rule (field 0 of the map entry)
        ko = f.origins_of_operand(c.args[1])
        if not (ko and all(is_call(o, HM_GET) and o[1:] == (("variant", "Some"), ("field", 0), ("field", 0)) for o in ko)):
            ctx.viol((f.id, "cycle-test-key"), "the cycle test does not ask about the rule that owns the source (its key is not exactly the rule index of the map entry: a key that also carries the position among the rule's targets lets a cycle through another target of the same rule pass)", c.where)
        # what is put into / taken out of the set is the rule index of a frame, nothing more
        for i2 in [x for x in calls(f, HS_INSERT) + calls(f, HS_REMOVE) if f.vars_of_operand(x.args[0]) == S]:
            io = f.origins_of_operand(i2.args[1])
            if not (io and all(o[-1] == ("field", "index") for o in io)):
                ctx.viol((f.id, "cycle-set-key", i2.name), "the on-stack set is keyed by something other than a frame's rule index (%s)" % sorted(map(fmt_origin, io))[:2], i2.where)
        else:
            ctx.ok()
    sd = f.constructs(ERR, "SelfDependentRule")
    if not sd:
        # the verdict raised somewhere else in the sorter: outside the search it is raised against
        # rules the goal may never reach
        for g in sort_fns(ctx.P):
            for (bb, idx, rv, pl) in g.constructs(ERR, "SelfDependentRule"):
                if g.id != f.id and g.loops():
                    ctx.inst("SelfDependentRule", g.where(bb, idx))
                    ctx.viol((g.id, "self-dependence-outside-search"), "SelfDependentRule is raised in %s, outside the depth-first search: a self-dependent rule that the goal does not depend on makes a valid goal-restricted build fail" % g.id, g.where(bb, idx))
        if ctx.violations:
            return
    ctx.need(sd, "SelfDependentRule construction")
    for (bb, idx, rv, pl) in sd:
        ctx.inst("SelfDependentRule", f.where(bb, idx))

        def same_index(d):
            if d["op"] != "Eq":
                return False
            ao, bo = f.origins_of_operand(d["a"]), f.origins_of_operand(d["b"])
            for x, y in ((ao, bo), (bo, ao)):
                if x and y and all(o[-1] == ("field", "index") for o in x) and all(is_call(o, HM_GET) and o[-1] == ("field", 0) for o in y):
                    return True
            return False
        edges = f.cmp_edges(same_index, True)
        if f.dominated_by_edges(bb, edges):
            ctx.ok()
        else:
            ctx.viol((f.id, "self-dependence-unguarded"), "SelfDependentRule is not guarded by `frame.index == index of the source's rule`", f.where(bb, idx))
    # both verdicts live on the branch where the frame could not be taken (already visited / on stack)
    takes = [t for t in f.calls if t.name == "take" and "Option" in t.path]
    lp_takes = [t for t in takes if f.on_cycle(t.bb)]
    if lp_takes:
        none_e = set()
        for t in lp_takes:
            none_e |= f.edges_of_call_variant(t, "None")
        for (bb, idx, rv, pl) in sd + f.constructs(ERR, "CircularDependence"):
            if not f.dominated_by_edges(bb, none_e):
                ctx.viol((f.id, "verdict-on-fresh-frame"), "a cyclic verdict is issued for a rule that was not yet reached", f.where(bb, idx))


@rule("C12.R5", floor=3)
def c12_r5(ctx):
    """The cycle verdict is issued only against open frames: let S be the set whose `contains`
    guards CircularDependence.  Violation iff (a) some insert into S takes the `.index` of a
    frame that is pushed on the DFS stack unvisited (not through the visiting function), and
    (b) that insert lies on a CFG cycle avoiding every remove on S - then two pending
    siblings can be in S at once and a DAG is reported as a cycle."""
    fs = [f for f in sort_fns(ctx.P) if f.constructs(ERR, "CircularDependence")]
    ctx.need(len(fs) == 1, "the DFS function")
    f = fs[0]
    c, S, site = _cycle_set(ctx, f)
    ctx.need(c is not None, "cycle set")
    ins = [i for i in calls(f, HS_INSERT) if f.vars_of_operand(i.args[0]) == S]
    rem = [r for r in calls(f, HS_REMOVE) if f.vars_of_operand(r.args[0]) == S]
    ctx.inst("contains", c.where)
    for r in rem:
        ctx.inst("remove", r.where)
    if not rem:
        ctx.viol((f.id, "cycle-set-never-shrinks"), "nothing is ever removed from the on-stack set: any rule reached twice is reported as a cycle", c.where)
    # the DFS stack: the Vec popped by the loop that contains `contains`
    pops = [p for p in f.calls_to(VEC_POP) if c.bb in f.reach_after(p.bb) and f.on_cycle(p.bb)]
    ctx.need(pops, "DFS stack pop")
    outer = None
    for p in pops:
        if c.bb in f.natural_loop(p.bb):
            if outer is None or len(f.natural_loop(p.bb)) > len(f.natural_loop(outer.bb)):
                outer = p
    ctx.need(outer is not None, "the pop that drives the DFS")
    stack = f.vars_of_operand(outer.args[0])
    # the visiting function: returns a Frame whose `visited` field is the constant true
    visit_fns = set()
    for g in sort_fns(ctx.P):
        for (bb, idx, rv, pl) in g.constructs("sort::Frame"):
            # (a frame rebuilt from the frame given, every field carried over but one that gets a
            #  fixed value: `visited: true`, or a stage enum's second variant)
            if pl["local"] != 0 or g.nargs != 1:
                continue
            carried = 0
            fixed = 0
            for op in rv["ops"]:
                org = g.origins_of_operand(op)
                if org and all(o[0] == ("param", 1) and len(o) == 2 and o[1][0] == "field" for o in org):
                    carried += 1
                elif op["k"] == "const" or (org and all(o[0][0] in ("agg", "const") and len(o) == 1 for o in org)):
                    fixed += 1
            if fixed == 1 and carried == len(rv["ops"]) - 1:
                visit_fns.add(g.id)
    ctx.need(visit_fns, "the function that marks a frame visited")
    pushes = [p for p in f.calls_to(VEC_PUSH) if f.vars_of_operand(p.args[0]) == stack]
    for i in ins:
        ctx.inst("insert", i.where)
        ao = f.origins_of_operand(i.args[1])
        frames = {o[:-1] for o in ao if o[-1] == ("field", "index")}
        unvisited_push = None
        for p in pushes:
            vo = f.origins_of_operand(p.args[1])
            if frames and vo == frames:
                unvisited_push = p
        # (a) holds if the frame whose index is inserted is pushed as it is
        a = unvisited_push is not None
        # (b) insert on a cycle that avoids every remove
        b = i.bb in f.reach_after(i.bb, avoid_blocks=[r.bb for r in rem])
        if a and b:
            ctx.viol((f.id, "pending-frame-in-cycle-set", "insert-of-unvisited-frame"),
                     "the index of a frame that is only pending (pushed unvisited) is put into the set the cycle test consults, in a loop that does not remove it again: a rule met as a source while it waits as a sibling is reported as CircularDependence although the graph is acyclic",
                     i.where)
        else:
            ctx.ok()


ORDER_DESTROYING = ("swap_remove", "swap", "reverse", "sort", "sort_by", "sort_by_key", "sort_unstable", "sort_unstable_by",
                    "sort_unstable_by_key", "rotate_left", "rotate_right", "retain", "retain_mut", "dedup", "dedup_by",
                    "dedup_by_key", "truncate", "clear", "drain", "split_off", "fill", "resize")


@rule("C12.R7", floor=2)
def c12_r7(ctx):
    """Stack discipline: the DFS stack (the Vec popped by the loop that issues the cyclic
    verdicts) and the order-of-emission vector are changed only by push, pop and the
    order-preserving `remove`; no operation whose std contract reorders or discards elements
    is applied to them (the stack's order *is* the ancestry the cycle test and the emission
    order rely on)."""
    fs = [f for f in sort_fns(ctx.P) if f.constructs(ERR, "CircularDependence")]
    ctx.need(len(fs) == 1, "the DFS function")
    f = fs[0]
    c, S, site = _cycle_set(ctx, f)
    pops = [p for p in f.calls_to(VEC_POP) if f.on_cycle(p.bb)]
    ctx.need(pops, "DFS stack pop")
    outer = max(pops, key=lambda p: len(f.natural_loop(p.bb)))
    stack = f.vars_of_operand(outer.args[0])
    for c2 in f.calls:
        if not c2.args:
            continue
        ep = erase_generics(c2.path)
        if not (ep.startswith("std::vec::Vec::") or ep.startswith("core::slice::") or ep.startswith("std::slice::")):
            continue
        tv = f.vars_of_operand(c2.args[0])
        on_stack = tv == stack
        on_emit = any(o[-1] == ("field", "frames_in_order") for o in f.origins_of_operand(c2.args[0]))
        if not (on_stack or on_emit):
            continue
        ctx.inst("%s on the %s" % (c2.name, "DFS stack" if on_stack else "emission vector"), c2.where)
        if c2.name in ORDER_DESTROYING:
            ctx.viol((f.id, "stack-order-destroyed", c2.name), "`%s` reorders or discards frames of the %s: ancestry / emission order is no longer what the cycle test and the plan rely on (an acyclic graph can be rejected or a rule emitted before its prerequisite)" % (c2.name, "DFS stack" if on_stack else "emission vector"), c2.where)
        else:
            ctx.ok()


@rule("C12.R8", floor=1)
def c12_r8(ctx):
    """Build-all searches from every rule: in the function that runs the depth-first search
    in a loop (the sort of the whole graph), the loop runs over 0..len of the frame table
    handed to the machine (or over the table itself, untruncated), every iteration starts a
    search at that iteration's index, and a search's error leaves the function.  (A cycle
    no other rule depends on is found only by a search that starts inside it.)"""
    P = ctx.P
    SO = "sort::TopologicalSortMachine::sort_once"
    cands = []
    for f in sort_fns(P):
        for c in f.calls_to(SO):
            lps = [lp for lp in f.loops() if c.bb in lp["body"]]
            if lps:
                cands.append((f, c, min(lps, key=lambda l: len(l["body"]))))
    ctx.need(len(cands) == 1, "the loop that starts a search per rule")
    f, c, lp = cands[0]
    ctx.saw(f)
    ctx.inst("search loop", f.where(lp["header"]))
    news = f.calls_to("sort::TopologicalSortMachine::new")
    ctx.need(len(news) == 1, "the machine construction in %s" % f.id)
    frames = f.origins_of_operand(news[0].args[0])
    it = lp["iter"]
    if it and all(o[0][0] == "agg" and o[0][4].endswith("Range::Range") for o in it):
        for o in it:
            rv = f.blocks[o[0][2]]["stmts"][o[0][3]]["rv"]
            lo, hi = rv["ops"][0], rv["ops"][1]
            full = lo["k"] == "const" and lo.get("bits") == "0"
            ends = f.origins_of_operand(hi)

            def is_table(op):
                org = f.origins_of_operand(op)
                if org == frames:
                    return True
                # the table after it was moved into the machine: a field of the value `new` returned
                fty = f.local_ty(news[0].args[0]["place"]["local"])["s"] if news[0].args[0]["k"] in ("copy", "move") else None
                return bool(org) and all(is_call(o, "sort::TopologicalSortMachine::new") and len(o) == 2 and o[1][0] == "field" for o in org) and \
                    fty is not None and erase_generics(ty_of(f, op)) == erase_generics(fty)
            if not (ends and all(is_call(h) and h[0][3].endswith("::len") and len(h) == 1 for h in ends)) or \
                    not all(is_table(f.call_at[h[0][2]].args[0]) for h in ends):
                raise AnalysisError("idiom not recognised: the end of the search range in %s is not the length of the frame table" % f.id)
            if not full:
                ctx.viol((f.id, "search-range"), "the searches of a whole-graph sort do not run over 0..len of the frame table: some rules are never searched from (a cycle among them goes unreported and they are left out of the plan)", f.where(lp["header"]))
    elif it and all(any(o[:len(b)] == b for b in frames) for o in it):
        if any(st[0] == "truncate" for o in it for st in o[1:]):
            ctx.viol((f.id, "search-range"), "the searches of a whole-graph sort do not cover every frame", f.where(lp["header"]))
    else:
        raise AnalysisError("idiom not recognised: the search loop of %s runs neither over a range nor over the frame table" % f.id)
    # the index searched from is this iteration's
    io = f.origins_of_operand(c.args[1])
    if io != lp["elem"] and io != {e + (("field", 0),) for e in lp["elem"]}:
        ctx.viol((f.id, "search-from-other-index"), "the search started in an iteration is not at that iteration's rule", c.where)
    r = f.reach([lp["some"][1]], avoid_blocks=[c.bb])
    if lp["header"] in r:
        ctx.viol((f.id, "rule-not-searched"), "an iteration of the whole-graph sort can go by without a search from its rule: a cycle (or self-dependence) that no other rule depends on is accepted and its rules are left out of the plan", c.where)
    else:
        ctx.ok()
    err_e = f.edges_of_call_variant(c, "Err")
    if not err_e:
        raise AnalysisError("idiom not recognised: the result of the search in %s is not examined by variant" % f.id)
    r2 = f.reach([x for (_, x) in err_e])
    if lp["header"] in r2:
        ctx.viol((f.id, "search-error-ignored"), "a failed search (cycle, self-dependence) does not end the sort", c.where)
    oks = [(bb, idx) for (bb, idx, rv, pl) in f.constructs("std::result::Result", "Ok") if pl["local"] == 0 and bb in r2]
    if oks:
        ctx.viol((f.id, "search-error-ignored"), "a failed search (cycle, self-dependence) can still yield a plan", c.where)


@rule("C12.R9", floor=2)
def c12_r9(ctx):
    """Only looked-up rules enter the plan: in the search, a frame is taken out of the frame
    table (`opt_frame.take()`) only at an index that is the search's own starting index or field 0
    of the target-map entry looked up for a source (an exact match of the source's name).  A frame
    taken at an index found any other way (a scan of the table, a prefix match) puts a rule into
    the scope of a goal it is not an ancestor of."""
    fs = [f for f in sort_fns(ctx.P) if f.constructs(ERR, "CircularDependence")]
    ctx.need(len(fs) == 1, "the DFS function")
    f = fs[0]
    ctx.saw(f)
    n = 0
    for c in f.calls:
        if c.name != "take" or not c.path.startswith("std::option::Option::"):
            continue
        ao = f.origins_of_operand(c.args[0])
        if not (ao and all(o[-1] == ("field", "opt_frame") for o in ao)):
            continue
        n += 1
        ctx.inst("frame taken", c.where)
        ok = True
        for o in ao:
            base = o[:-1]
            io = None
            if is_call(base) and "Index" in base[0][3] and len(base) == 1:
                ix = f.call_at[base[0][2]]
                io = f.origins_of_operand(ix.args[1])
            elif base and base[-1][0] == "index" and base[0][0] == "param" and base[-2:-1] == (("field", "frame_buffer"),):
                # the table indexed as a slice (`frame_buffer[index]` on `&mut [FrameBufferValue]`)
                io = f._origins(base[-1][1], (), frozenset())
            if io is not None:
                for x in io:
                    if x[0][0] == "param" and len(x) == 1:
                        continue
                    if is_call(x, HM_GET) and x[1:] == (("variant", "Some"), ("field", 0), ("field", 0)):
                        g = f.call_at[x[0][2]]
                        if all(m[-1] == ("field", "to_buffer_index") for m in f.origins_of_operand(g.args[0])):
                            continue
                    ok = False
            else:
                ok = False      # reached through an iteration over the table, not through an index
        if ok:
            ctx.ok()
        else:
            ctx.viol((f.id, "frame-taken-without-lookup"), "a frame is taken out of the frame table at a position that is not the looked-up owner of a source (it derives from %s): a rule the goal does not depend on is pulled into the plan, and ruler then moves and rebuilds its targets" % sorted(map(fmt_origin, ao))[:1], c.where)
    ctx.need(n, "frames taken out of the table in the search")


@rule("C12.R11", floor=1)
def c12_r11(ctx):
    """A rule's position is not consulted before it has one: `final_index` starts as a
    placeholder (0) and becomes the rule's position only when its frame is finished, so during
    a search it is only ever stored, never read - a test like `final_index < finished so far`
    takes every frame that was taken but not yet finished for a finished one, and with it skips
    the self-dependence and cycle verdicts (the plan then contains a cycle) or the lifting of a
    waiting sibling (a rule is planned before its producer)."""
    fs = [f for f in sort_fns(ctx.P) if f.constructs(ERR, "CircularDependence")]
    ctx.need(len(fs) == 1, "the DFS function")
    f = fs[0]
    ctx.saw(f)

    def reads(x, out):
        if isinstance(x, dict):
            if isinstance(x.get("proj"), list) and any(e.get("k") == "field" and e.get("name") == "final_index" for e in x["proj"]):
                out.append(x)
            for v in x.values():
                reads(v, out)
        elif isinstance(x, list):
            for v in x:
                reads(v, out)
    stores = 0
    for b in f.blocks:
        if b["cleanup"] or b["i"] not in f.live:
            continue
        for i, st in enumerate(b["stmts"]):
            got = []
            if st["k"] == "assign":
                pr = st["place"]["proj"]
                if pr and pr[-1].get("k") == "field" and pr[-1].get("name") == "final_index":
                    stores += 1
                    ctx.inst("final_index stored", f.where(b["i"], i))
                    ctx.ok()
                reads(st["rv"], got)
            if got:
                ctx.viol((f.id, "position-read-during-search"), "final_index is read while a search is running: until a frame is finished the field holds the placeholder 0, which is also a real position", f.where(b["i"], i))
        got = []
        t = b["term"]
        reads({k: v for k, v in t.items() if k != "dest"}, got)
        if got:
            ctx.viol((f.id, "position-read-during-search"), "final_index is read while a search is running: until a frame is finished the field holds the placeholder 0, which is also a real position", f.where(b["i"]))
    ctx.need(stores, "the store into final_index")


@rule("C12.R10", floor=1)
def c12_r10(ctx):
    """The recorded position is the position in the plan: the value stored into `final_index`
    when a frame is finished is the length of the very vector the frame is then appended to and
    that the result is read from (`frames_in_order`) - a count taken on some other vector (the
    frames of this search only) binds later sources to the wrong node."""
    fs = [f for f in sort_fns(ctx.P) if f.constructs(ERR, "CircularDependence")]
    ctx.need(len(fs) == 1, "the DFS function")
    f = fs[0]
    n = 0
    for b in f.blocks:
        if b["cleanup"] or b["i"] not in f.live:
            continue
        for i, st in enumerate(b["stmts"]):
            if st["k"] == "assign" and st["place"]["proj"] and st["place"]["proj"][-1].get("name") == "final_index":
                n += 1
                ctx.inst("final_index stored", f.where(b["i"], i))
                vo = f._rv_origins(st["rv"], (), b["i"], i, frozenset())
                lens = [o for o in vo if is_call(o) and o[0][3].endswith("::len") and len(o) == 1]
                if not vo or len(lens) != len(vo):
                    raise AnalysisError("idiom not recognised: final_index in %s is not the length of a vector" % f.id)
                for o in lens:
                    src = f.origins_of_operand(f.call_at[o[0][2]].args[0])
                    if src and all(x[0][0] == "param" and x[-1] == ("field", "frames_in_order") for x in src):
                        ctx.ok()
                    else:
                        ctx.viol((f.id, "final-index-of-other-vector"), "final_index is the length of a vector other than the plan itself (%s): positions are relative to one search, and a source finished in a later search is bound to the wrong node" % sorted(map(fmt_origin, src))[:1], f.where(b["i"], i))
    ctx.need(n, "the store into final_index")
