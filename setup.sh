#!/bin/bash
# Build the fact extractor and warm the dependency metadata (offline).  Idempotent.
set -e
cd "$(dirname "$0")"
export CARGO_NET_OFFLINE=true
mkdir -p .cache/facts
(cd engine/driver && CARGO_TARGET_DIR="$PWD/../../.cache/driver-target" cargo build --release --offline 2>&1 | tail -2)
./engine/extract.sh /repo .cache/facts/warm >/dev/null && rm -f .cache/facts/warm.*
echo setup-ok
