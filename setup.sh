#!/bin/bash
# Build the fact extractor and the syn cross-checker, warm the dependency metadata and the
# positive-control fixture (offline).  Idempotent.
set -e
cd "$(dirname "$0")"
export CARGO_NET_OFFLINE=true
mkdir -p .cache/facts
(cd engine/driver && CARGO_TARGET_DIR="$PWD/../../.cache/driver-target" cargo build --release --offline 2>&1 | tail -2)
(cd engine/syncount && CARGO_TARGET_DIR="$PWD/../../.cache/syncount-target" cargo build --release --offline 2>&1 | tail -2) || echo "syncount not built (thorough tier will retry)"
./engine/extract.sh /repo .cache/facts/warm >/dev/null && rm -f .cache/facts/warm.*
./check C08 --tier quick >/dev/null 2>&1 || true
echo setup-ok
