// Positive controls: one violating instance for each rule clause whose expected number of
// matches on ruler is zero.  Analysed by the same driver and predicates on every run; each
// clause MUST fire here (a predicate that silently stopped matching would otherwise pass
// forever).  Never compiled into anything.
use std::collections::{HashMap, HashSet};
use std::sync::mpsc::{self, Receiver, Sender};
use std::sync::{Arc, Mutex};

pub fn os_api_outside_real() {
    let _ = std::fs::remove_file("x");
    let _ = std::fs::write("y", b"z");
    let _ = std::process::Command::new("true").status();
}

pub fn nonblocking_recv(r: &Receiver<u8>) -> Option<u8> {
    match r.try_recv() {
        Ok(v) => Some(v),
        Err(_) => None,
    }
}

pub fn recv_timeout(r: &Receiver<u8>) -> Option<u8> {
    r.recv_timeout(std::time::Duration::from_millis(1)).ok()
}

pub fn hash_order(m: &HashMap<String, usize>, s: &HashSet<usize>) -> Vec<String> {
    let mut out = vec![];
    for (k, _v) in m.iter() {
        out.push(k.clone());
    }
    for k in m.keys() {
        out.push(k.clone());
    }
    for x in s {
        out.push(format!("{}", x));
    }
    out
}

pub fn shared_capture() {
    let shared = Arc::new(Mutex::new(0u32));
    let s2 = shared.clone();
    let (tx, _rx): (Sender<u8>, Receiver<u8>) = mpsc::channel();
    let h = std::thread::spawn(move || {
        *s2.lock().unwrap() += 1;
        let _ = tx.send(1);
    });
    let _ = h.join();
}

fn main() {
    os_api_outside_real();
    shared_capture();
    let (_t, r): (Sender<u8>, Receiver<u8>) = mpsc::channel();
    let _ = nonblocking_recv(&r);
    let _ = recv_timeout(&r);
    let _ = hash_order(&HashMap::new(), &HashSet::new());
}
